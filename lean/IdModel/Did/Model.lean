import IdModel.Core.Outcome
import IdModel.Gen.C10
/-!
Model of `identity_did::{CoreDID, DIDUrl, RelativeDIDUrl}` on top of a byte-level transliteration
of the third-party parser `did_url_parser` 0.3.0 (`Input`, `Core::parse`, `parse_relative`, the
reference resolution used by `join`).  Strings are byte lists (`List Nat`); the parser reads bytes
as characters, so every non-ASCII byte fails every character class.  Character classes come from
`IdModel.Gen.C10` (regenerated from both sources).  Properties C10 (and, through it, C05/C17).

The parser's defects are modelled as they are: after a percent-encoded triple it skips one further
byte unvalidated, and it slices the *untrimmed* input with indices computed on the trimmed one.
-/
namespace IdModel.Did
open IdModel IdModel.Gen.C10

abbrev Str := List Nat

/-! ### third-party parser -/

/-- `Input::ctrl_or_space`: `is_ascii_control() || is_ascii_whitespace()` -/
def ctrlOrSpace (b : Nat) : Bool := b ≤ 32 || b == 127

/-- `str::trim_matches(ctrl_or_space)` -/
def trim (s : Str) : Str := ((s.dropWhile ctrlOrSpace).reverse.dropWhile ctrlOrSpace).reverse

def isHex (b : Nat) : Bool :=
  (48 ≤ b && b ≤ 57) || (65 ≤ b && b ≤ 70) || (97 ≤ b && b ≤ 102)

/-- `u8::from_str_radix(two bytes, 16).is_ok()` — also admits a leading `+` -/
def pctOkUp (a b : Nat) : Bool := (isHex a && isHex b) || (a == 43 && isHex b)

/-- One scanning loop of the parser from index `i`: stop (returning the index) at a byte
satisfying `stop` or at the end; if `pct`, on `%` require two further bytes forming a hex number,
then advance past the triple **and one more byte**; otherwise the byte must satisfy `cls`. -/
def scan (pct : Bool) (stop cls : Nat → Bool) (d : Str) : Nat → Nat → Option Nat
  | 0, i => some i
  | fuel + 1, i =>
    match d[i]? with
    | none => some i
    | some c =>
      if stop c then some i
      else if pct && c == 37 then
        match d[i + 1]?, d[i + 2]? with
        | some a, some b => if pctOkUp a b then scan pct stop cls d fuel (i + 4) else none
        | _, _ => none
      else if cls c then scan pct stop cls d fuel (i + 1)
      else none

structure Core where
  method : Nat
  methodId : Nat
  path : Nat
  query : Option Nat
  fragment : Option Nat
  deriving Repr, DecidableEq

inductive DErr | invalid
  deriving Repr, DecidableEq

/-- `&data[a..b]`: panics unless `a ≤ b ≤ len` -/
def slice (s : Str) (a b : Nat) : Outcome DErr Str :=
  if a ≤ b && b ≤ s.length then .ok ((s.drop a).take (b - a)) else .panic "did_url_parser:core.rs:slice"

/-- total slicing (equals `slice` whenever that does not panic) -/
def sl (s : Str) (a b : Nat) : Str := (s.drop a).take (b - a)

def stopId (c : Nat) : Bool := c == 47 || c == 63 || c == 35
def stopPath (c : Nat) : Bool := c == 63 || c == 35
def stopQuery (c : Nat) : Bool := c == 35
def stopNone (_ : Nat) : Bool := false
def stopColon (c : Nat) : Bool := c == 58

/-- path / query / fragment part of `Core::parse` (also `parse_relative` from index 0) -/
def parseTail (d : Str) (i : Nat) : Option (Nat × Option Nat × Option Nat) :=
  let fuel := d.length + 1
  match scan true stopPath upCharPath d fuel i with
  | none => none
  | some j =>
    -- parse_query
    match d[j]? with
    | none => some (i, none, none)
    | some c =>
      if c == 63 then
        match scan true stopQuery upCharQuery d fuel (j + 1) with
        | none => none
        | some k =>
          match d[k]? with
          | none => some (i, some j, none)
          | some _ =>
            -- the byte at k is `#`
            match scan true stopNone upCharFragment d fuel (k + 1) with
            | none => none
            | some _ => some (i, some j, some k)
      else
        -- the byte at j is `#`
        match scan true stopNone upCharFragment d fuel (j + 1) with
        | none => none
        | some _ => some (i, none, some j)

/-- `Core::parse`: indices are computed on the trimmed input, the final emptiness tests slice the
untrimmed one. -/
def upParse (s : Str) : Outcome DErr Core :=
  let d := trim s
  let fuel := d.length + 1
  if d.take 3 != [100, 105, 100] then .err .invalid
  else if d[3]? != some 58 then .err .invalid
  else
    match scan false stopColon upCharMethod d fuel 4 with
    | none => .err .invalid
    | some i =>
      if d[i]? != some 58 then .err .invalid
      else
        match scan true stopId upCharMethodId d fuel (i + 1) with
        | none => .err .invalid
        | some j =>
          match parseTail d j with
          | none => .err .invalid
          | some (p, q, f) =>
            match slice s 4 i with
            | .panic m => .panic m
            | .err e => .err e
            | .ok meth =>
              if meth.isEmpty then .err .invalid
              else match slice s (i + 1) p with
                | .panic m => .panic m
                | .err e => .err e
                | .ok mid =>
                  if mid.isEmpty then .err .invalid
                  else .ok { method := 3, methodId := i, path := p, query := q, fragment := f }

/-- `Core::parse_relative` -/
def upParseRelative (s : Str) : Option Core :=
  match parseTail (trim s) 0 with
  | none => none
  | some (p, q, f) => some { method := 0, methodId := 0, path := p, query := q, fragment := f }

/-- component accessors of `did_url_parser::DID` (on the stored, untrimmed string) -/
def Core.methodOf (c : Core) (s : Str) : Str := sl s (c.method + 1) c.methodId
def Core.methodIdOf (c : Core) (s : Str) : Str := sl s (c.methodId + 1) c.path
def Core.pathOf (c : Core) (s : Str) : Str :=
  match c.query, c.fragment with
  | none, none => s.drop c.path
  | some i, _ => sl s c.path i
  | none, some i => sl s c.path i
def Core.queryOf (c : Core) (s : Str) : Option Str :=
  match c.query, c.fragment with
  | none, _ => none
  | some q, none => some (s.drop (q + 1))
  | some q, some f => some (sl s (q + 1) f)
def Core.fragmentOf (c : Core) (s : Str) : Option Str := c.fragment.map fun f => s.drop (f + 1)

/-! ### identity_did validators -/

/-- `CoreDID::valid_method_name` -/
def validMethodName (v : Str) : Bool := !v.isEmpty && v.all isCharMethodName

/-- `CoreDID::valid_method_id`: id characters and `%` HEXDIG HEXDIG, not empty -/
def validMethodIdAux : Str → Bool
  | [] => true
  | 37 :: a :: b :: r => isHex a && isHex b && validMethodIdAux r
  | 37 :: _ => false
  | c :: r => isCharMethodId c && validMethodIdAux r

def validMethodId (v : Str) : Bool := !v.isEmpty && validMethodIdAux v

/-- `is_valid_url_segment` -/
def validSegment (cls : Nat → Bool) : Str → Bool
  | [] => true
  | 37 :: a :: b :: r => isHex a && isHex b && validSegment cls r
  | 37 :: _ => false
  | c :: r => cls c && validSegment cls r

/-- `method_id_scan_overruns`: mirror of the parser's method-id scan -/
def guardScan (d : Str) : Nat → Nat → Option Nat
  | 0, i => some i
  | fuel + 1, i =>
    match d[i]? with
    | none => some i
    | some c =>
      if c == 47 || c == 63 || c == 35 then none
      else if c == 37 then guardScan d fuel (i + 4)
      else guardScan d fuel (i + 1)

/-- position of the first `:` at index ≥ 4 -/
def colonFrom4 (s : Str) : Option Nat := ((s.drop 4).findIdx? (· == 58)).map (· + 4)

def overruns (s : Str) : Bool :=
  match colonFrom4 s with
  | none => false
  | some c =>
    match guardScan s (s.length + 1) (c + 1) with
    | none => false
    | some j => j > s.length

/-- `parse_base_did_url`: the guarded call of the third-party parser -/
def parseBase (s : Str) : Outcome DErr Core :=
  if trim s != s then .err .invalid
  else if overruns s then .err .invalid
  else upParse s

/-- `CoreDID::check_validity` on a parsed value -/
def checkValidity (s : Str) (c : Core) : Bool :=
  validMethodName (c.methodOf s) && validMethodId (c.methodIdOf s) &&
    (c.pathOf s).isEmpty && (c.fragmentOf s).isNone && (c.queryOf s).isNone

/-- a `CoreDID`: its string and the component indices -/
structure CoreDid where
  str : Str
  core : Core
  deriving Repr, DecidableEq

/-- `CoreDID::parse` -/
def parseDid (s : Str) : Outcome DErr CoreDid :=
  match parseBase s with
  | .panic m => .panic m
  | .err e => .err e
  | .ok c => if checkValidity s c then .ok { str := s, core := c } else .err .invalid

def CoreDid.method (d : CoreDid) : Str := d.core.methodOf d.str
def CoreDid.methodId (d : CoreDid) : Str := d.core.methodIdOf d.str

/-- `CoreDID::set_method_name` (`Core::set_method` on the buffer) -/
def setMethodName (d : CoreDid) (v : Str) : Option CoreDid :=
  if validMethodName v then
    let old := d.method.length
    some { str := d.str.take 4 ++ v ++ d.str.drop (4 + old),
           core := { d.core with methodId := d.core.methodId + v.length - old,
                                 path := d.core.path + v.length - old } }
  else none

/-- `CoreDID::set_method_id` -/
def setMethodId (d : CoreDid) (v : Str) : Option CoreDid :=
  if validMethodId v then
    some { str := d.str.take (d.core.methodId + 1) ++ v,
           core := { d.core with path := d.core.methodId + 1 + v.length } }
  else none

/-! ### DID URLs -/

/-- `RelativeDIDUrl` + `CoreDID`; the parts are stored with their leading delimiter -/
structure DidUrl where
  did : Str
  path : Option Str
  query : Option Str
  fragment : Option Str
  deriving Repr, DecidableEq

/-- `set_path`: `none` = `Err`, `some p` = new field value -/
def setPath (v : Option Str) : Option (Option Str) :=
  match v with
  | none => some none
  | some [] => some none
  | some s => if s.head? == some 47 && validSegment isCharPath s then some (some s) else none

def stripPrefix1 (c : Nat) (s : Str) : Str := if s.head? == some c then s.tail else s

def setQuery (v : Option Str) : Option (Option Str) :=
  match v with
  | none => some none
  | some [] => some none
  | some s =>
    let t := stripPrefix1 63 s
    if t.isEmpty || !validSegment isCharQuery t then none else some (some (63 :: t))

def setFragment (v : Option Str) : Option (Option Str) :=
  match v with
  | none => some none
  | some [] => some none
  | some s =>
    let t := stripPrefix1 35 s
    if t.isEmpty || !validSegment isCharFragment t then none else some (some (35 :: t))

/-- `DIDUrl::from_base_did_url` given the string and parser indices of the (possibly joined) URL -/
def fromBase (s : Str) (c : Core) : Option DidUrl :=
  -- the parser's query/fragment exclude the delimiter; it is restored before the (stripping) setters
  match setPath (some (c.pathOf s)),
        setQuery (((c.queryOf s).filter (!·.isEmpty)).map (63 :: ·)),
        setFragment (((c.fragmentOf s).filter (!·.isEmpty)).map (35 :: ·)) with
  | some p, some q, some f =>
    -- `set_path("")`, `set_query(None)`, `set_fragment(None)` leave the DID part
    let didStr := s.take c.path
    let didCore : Core := { c with query := none, fragment := none }
    if checkValidity didStr didCore then some { did := didStr, path := p, query := q, fragment := f }
    else none
  | _, _, _ => none

/-- `DIDUrl::parse` -/
def parseUrl (s : Str) : Outcome DErr DidUrl :=
  match parseBase s with
  | .panic m => .panic m
  | .err e => .err e
  | .ok c => match fromBase s c with
    | some u => .ok u
    | none => .err .invalid

def DidUrl.toStr (u : DidUrl) : Str :=
  u.did ++ u.path.getD [] ++ u.query.getD [] ++ u.fragment.getD []

/-- `remove_dot_segments` (RFC 3986 §5.2.4 as coded), with the output as a byte list -/
def popSeg (out : Str) : Str :=
  -- `rfind('/')` then truncate there; unchanged when there is no `/`
  match (out.reverse.findIdx? (· == 47)) with
  | none => out
  | some k => out.take (out.length - 1 - k)

def nextSegment : Str → Option Nat
  | 47 :: r => (nextSegment r).map (· + 1)
  | inp => inp.findIdx? (· == 47)

def removeDots : Nat → Str → Str → Str
  | 0, _, out => out
  | fuel + 1, inp, out =>
    match inp with
    | 46 :: 46 :: 47 :: r => removeDots fuel r out
    | 46 :: 47 :: r => removeDots fuel r out
    | 47 :: 46 :: 47 :: r => removeDots fuel (47 :: r) out
    | [47, 46] => removeDots fuel [47] out
    | 47 :: 46 :: 46 :: 47 :: r => removeDots fuel (47 :: r) (popSeg out)
    | [47, 46, 46] => removeDots fuel [47, 46] (popSeg out)
    | [46] => removeDots fuel [] out
    | [46, 46] => removeDots fuel [] out
    | _ =>
      match nextSegment inp with
      | some idx => removeDots fuel (inp.drop idx) (out ++ inp.take idx)
      | none => out ++ inp

/-- `DIDUrl::join`: the segment must start with `/`, `?` or `#`; the own string form is re-parsed
by the (guarded) third-party parser, the reference is resolved against it (RFC 3986 §5.2.2 as
coded; for these segments the reference path is empty or absolute), and the result goes through
`from_base_did_url`. -/
def join (u : DidUrl) (seg : Str) : Outcome DErr DidUrl :=
  if !(seg.head? == some 47 || seg.head? == some 63 || seg.head? == some 35) then .err .invalid
  else
    let s := u.toStr
    match parseBase s with
    | .panic m => .panic m
    | .err e => .err e
    | .ok c =>
      match upParseRelative seg with
      | none => .err .invalid
      | some r =>
        let P := r.pathOf seg
        let Q := r.queryOf seg
        let F := r.fragmentOf seg
        let basePath := c.pathOf s
        let baseQuery := c.queryOf s
        let newPath := if P.isEmpty then basePath else removeDots (4 * P.length + 4) P []
        let newQuery := if P.isEmpty then (match Q with | some q => some q | none => baseQuery) else Q
        let didPart := s.take c.path
        -- the joined string and its indices
        let s1 := didPart ++ newPath
        let qIdx := newQuery.map fun _ => s1.length
        let s2 := match newQuery with | some q => s1 ++ 63 :: q | none => s1
        let fIdx := F.map fun _ => s2.length
        let s3 := match F with | some f => s2 ++ 35 :: f | none => s2
        let c' : Core := { c with query := qIdx, fragment := fIdx }
        match fromBase s3 c' with
        | some v => .ok v
        | none => .err .invalid

/-- `PartialEq for DIDUrl` -/
def DidUrl.eq (a b : DidUrl) : Bool :=
  a.did == b.did && a.path.getD [] == b.path.getD [] && a.query.getD [] == b.query.getD [] &&
    a.fragment.getD [] == b.fragment.getD []

/-- byte-wise lexicographic order of `str` -/
def cmpStr : Str → Str → Ordering
  | [], [] => .eq
  | [], _ :: _ => .lt
  | _ :: _, [] => .gt
  | x :: xs, y :: ys => if x < y then .lt else if x > y then .gt else cmpStr xs ys

/-- `Ord for DIDUrl`: DID, then path, query, fragment -/
def DidUrl.cmp (a b : DidUrl) : Ordering :=
  match cmpStr a.did b.did with
  | .eq =>
    match cmpStr (a.path.getD []) (b.path.getD []) with
    | .eq =>
      match cmpStr (a.query.getD []) (b.query.getD []) with
      | .eq => cmpStr (a.fragment.getD []) (b.fragment.getD [])
      | o => o
    | o => o
  | o => o

/-- `Hash for DIDUrl` hashes the string form -/
def DidUrl.hashInput (u : DidUrl) : Str := u.toStr

end IdModel.Did
