import IdModel.Jose.HeaderLemmas
/-!
# C11 — JOSE header policy (crit, b64, disjointness, alg) is enforced fail-closed

`validate` (the model of `validate_jws_headers`, over tables regenerated from the Rust source) is
proved equivalent to a specification written independently of the code: both directions, so every
forbidden shape is rejected **and** everything else is accepted.
-/
namespace IdModel.Props.C11
open IdModel.Jose IdModel.Gen.C11

/-- header parameter names registered by RFC 7515 §4.1, RFC 7516 §4.1 and RFC 7518 §4 -/
def Registered : List String :=
  ["alg", "jku", "jwk", "kid", "x5u", "x5c", "x5t", "x5t#S256", "typ", "cty", "crit",
   "enc", "zip", "epk", "apu", "apv", "iv", "tag", "p2s", "p2c"]

/-- extensions this library implements -/
def Implemented : List String := ["b64"]

/-- `v` is a parameter of one of the two headers -/
def present (v : String) (p u : Option Hdr) : Prop :=
  (∃ h, p = some h ∧ v ∈ names h) ∨ (∃ h, u = some h ∧ v ∈ names h)

/-- The policy, stated outright. -/
structure Spec (p u : Option Hdr) : Prop where
  /-- `crit` only in the protected header -/
  crit_protected : ∀ h, u = some h → "crit" ∉ names h
  /-- `crit` is not empty and each entry is an implemented, non-registered, present parameter -/
  crit_ok : ∀ h c, p = some h → h.crit = some c →
    c ≠ [] ∧ ∀ v ∈ c, v ∉ Registered ∧ v ∈ Implemented ∧ present v p u
  /-- `b64` only in the protected header … -/
  b64_protected : ∀ h, u = some h → "b64" ∉ names h
  /-- … and listed in `crit` -/
  b64_in_crit : ∀ h, p = some h → "b64" ∈ names h → ∃ c, h.crit = some c ∧ "b64" ∈ c
  /-- protected and unprotected headers share no parameter name -/
  disjoint : ∀ hp hu, p = some hp → u = some hu → ∀ n ∈ names hp, n ∉ names hu

def WFo (o : Option Hdr) : Prop := ∀ h, o = some h → WF h

theorem b64_mem_names (h : Hdr) (hw : WF h) : "b64" ∈ names h ↔ h.b64.isSome = true := by
  rw [← has_iff_names h hw]; simp [has]

theorem crit_mem_names (h : Hdr) (hw : WF h) : "crit" ∈ names h ↔ has h "crit" = true :=
  (has_iff_names h hw "crit").symm

theorem critLoop_ok_iff (p u : Option Hdr) (vs : List String) :
    critLoop p u vs = .ok () ↔
      ∀ v ∈ vs, v ∉ predefined ∧ v ∈ permittedCrits ∧ critExists p u v = true := by
  induction vs with
  | nil => simp [critLoop]
  | cons v vs ih =>
    unfold critLoop
    by_cases h1 : v ∈ predefined
    · simp [h1]
    · by_cases h2 : v ∈ permittedCrits
      · cases h3 : critExists p u v
        · simp [h1, h2, h3]
        · simp [h1, h2, h3, ih]
      · simp [h1, h2]

/-- what the two constant tables admit: exactly the implemented, non-registered extensions -/
theorem permitted_iff (v : String) :
    (v ∉ predefined ∧ v ∈ permittedCrits) ↔ (v ∉ Registered ∧ v ∈ Implemented) := by
  constructor
  · rintro ⟨_, h2⟩
    have : v = "b64" := by simpa [permittedCrits] using h2
    subst this
    exact ⟨by decide, by decide⟩
  · rintro ⟨_, h2⟩
    have : v = "b64" := by simpa [Implemented] using h2
    subst this
    exact ⟨by decide, by decide⟩

/-- **The policy is enforced, fail-closed and without over-rejection.** -/
theorem validate_iff (p u : Option Hdr) (hp : WFo p) (hu : WFo u) :
    validate p u = .ok () ↔ Spec p u := by
  unfold validate
  constructor
  · intro hv
    -- disjoint
    cases hd : validateDisjoint p u with
    | error e => simp [hd] at hv
    | ok _ =>
    simp only [hd] at hv
    cases hc : validateCrit p u with
    | error e => simp [hc] at hv
    | ok _ =>
    simp only [hc] at hv
    -- unpack crit
    unfold validateCrit at hc
    split at hc
    · cases hc
    · rename_i hucrit
      split at hc
      · cases hc
      · rename_i hempty
        rw [critLoop_ok_iff] at hc
        unfold validateB64 at hv
        split at hv
        · cases hv
        · rename_i hub64
          refine ⟨?_, ?_, ?_, ?_, ?_⟩
          · intro h hh
            subst hh
            rw [crit_mem_names h (hu h rfl)]
            simpa using hucrit
          · intro h c hh hcrit
            subst hh
            simp only [Option.bind_some, hcrit, Option.map_some, Option.getD_some,
              Bool.not_eq_true] at hempty hc
            refine ⟨by intro hn; simp [hn] at hempty, ?_⟩
            intro v hvc
            obtain ⟨h1, h2, h3⟩ := hc v hvc
            obtain ⟨r1, r2⟩ := (permitted_iff v).1 ⟨h1, h2⟩
            exact ⟨r1, r2, Or.inl ⟨h, rfl, (has_iff_names h (hp h rfl) v).1 (by simpa [critExists] using h3)⟩⟩
          · intro h hh
            subst hh
            rw [b64_mem_names h (hu h rfl)]
            simpa using hub64
          · intro h hh hb
            subst hh
            rw [b64_mem_names h (hp h rfl)] at hb
            cases hb64 : h.b64 with
            | none => simp [hb64] at hb
            | some bv =>
              cases hcr : h.crit with
              | none => simp [hb64, hcr] at hv
              | some c =>
                refine ⟨c, rfl, ?_⟩
                simp only [Option.bind_some, hcr, Option.map_some, Option.getD_some,
                  Bool.not_eq_true] at hempty hc
                cases c with
                | nil => simp at hempty
                | cons v vs =>
                  have := (hc v List.mem_cons_self).2.1
                  have hv' : v = "b64" := by simpa [permittedCrits] using this
                  subst hv'; exact List.mem_cons_self
          · intro a b ha hb
            subst ha; subst hb
            simp only [validateDisjoint] at hd
            split at hd
            · rename_i hdis
              exact (isDisjoint_iff a b (hp a rfl) (hu b rfl)).1 hdis
            · cases hd
  · intro hs
    have hd : validateDisjoint p u = .ok () := by
      unfold validateDisjoint
      cases p with
      | none => rfl
      | some a =>
        cases u with
        | none => rfl
        | some b =>
          simp only [(isDisjoint_iff a b (hp a rfl) (hu b rfl)).2 (hs.disjoint a b rfl rfl), ↓reduceIte]
    simp only [hd]
    have hucrit : (u.map (has · "crit")).getD false = false := by
      cases u with
      | none => rfl
      | some b =>
        have := hs.crit_protected b rfl
        rw [crit_mem_names b (hu b rfl)] at this
        simpa using this
    have hc : validateCrit p u = .ok () := by
      unfold validateCrit
      simp only [hucrit, Bool.false_eq_true, ↓reduceIte]
      cases p with
      | none => simp [critLoop]
      | some a =>
        cases hcr : a.crit with
        | none => simp [hcr, critLoop]
        | some c =>
          obtain ⟨hne, hall⟩ := hs.crit_ok a c rfl hcr
          have : c.isEmpty = false := by cases c <;> simp_all
          simp only [Option.bind_some, hcr, Option.map_some, Option.getD_some, this,
            Bool.false_eq_true, ↓reduceIte]
          rw [critLoop_ok_iff]
          intro v hvc
          obtain ⟨r1, r2, r3⟩ := hall v hvc
          obtain ⟨q1, q2⟩ := (permitted_iff v).2 ⟨r1, r2⟩
          refine ⟨q1, q2, ?_⟩
          have hvb : v = "b64" := by simpa [Implemented] using r2
          subst hvb
          -- "b64" present: it cannot be in the unprotected header, so it is in the protected one
          rcases r3 with ⟨h, hh, hm⟩ | ⟨h, hh, hm⟩
          · cases hh
            simpa [critExists] using (has_iff_names a (hp a rfl) "b64").2 hm
          · exact absurd hm (hs.b64_protected h hh)
    simp only [hc]
    unfold validateB64
    have hub64 : (u.bind (·.b64)).isSome = false := by
      cases u with
      | none => rfl
      | some b =>
        have := hs.b64_protected b rfl
        rw [b64_mem_names b (hu b rfl)] at this
        simpa using this
    simp only [hub64, Bool.false_eq_true, ↓reduceIte]
    cases p with
    | none => rfl
    | some a =>
      cases hb : a.b64 with
      | none => simp [hb]
      | some bv =>
        have : "b64" ∈ names a := (b64_mem_names a (hp a rfl)).2 (by simp [hb])
        obtain ⟨c, hcr, _⟩ := hs.b64_in_crit a rfl this
        simp [hb, hcr]

/-! ### consequences spelled out: each forbidden shape is rejected -/

theorem rejects_unprotected_crit (p : Option Hdr) (u : Hdr) (hp : WFo p) (hu : WF u)
    (h : u.crit.isSome) : validate p (some u) ≠ .ok () := by
  intro hv
  have hs := (validate_iff p (some u) hp (by intro h hh; cases hh; exact hu)).1 hv
  apply hs.crit_protected u rfl
  rw [crit_mem_names u hu]
  simp [has, commonHasClaim, Hdr.allFields, h, commonHas, List.lookup]

theorem rejects_empty_crit (p : Hdr) (u : Option Hdr) (hp : WF p) (hu : WFo u)
    (h : p.crit = some []) : validate (some p) u ≠ .ok () := by
  intro hv
  have hs := (validate_iff (some p) u (by intro h hh; cases hh; exact hp) hu).1 hv
  exact (hs.crit_ok p [] rfl h).1 rfl

theorem rejects_unknown_or_registered_crit (p : Hdr) (u : Option Hdr) (hp : WF p) (hu : WFo u)
    (c : List String) (v : String) (h : p.crit = some c) (hv : v ∈ c) (hne : v ≠ "b64") :
    validate (some p) u ≠ .ok () := by
  intro hval
  have hs := (validate_iff (some p) u (by intro h hh; cases hh; exact hp) hu).1 hval
  have := ((hs.crit_ok p c rfl h).2 v hv).2.1
  simp [Implemented] at this
  exact hne this

theorem rejects_absent_crit (p : Hdr) (u : Option Hdr) (hp : WF p) (hu : WFo u)
    (c : List String) (h : p.crit = some c) (hv : "b64" ∈ c) (hb : p.b64 = none) :
    validate (some p) u ≠ .ok () := by
  intro hval
  have hs := (validate_iff (some p) u (by intro h hh; cases hh; exact hp) hu).1 hval
  rcases ((hs.crit_ok p c rfl h).2 "b64" hv).2.2 with ⟨x, hx, hm⟩ | ⟨x, hx, hm⟩
  · cases hx
    rw [b64_mem_names p hp] at hm; simp [hb] at hm
  · exact hs.b64_protected x hx hm

theorem rejects_unprotected_b64 (p : Option Hdr) (u : Hdr) (hp : WFo p) (hu : WF u)
    (h : u.b64.isSome) : validate p (some u) ≠ .ok () := by
  intro hv
  have hs := (validate_iff p (some u) hp (by intro h hh; cases hh; exact hu)).1 hv
  exact hs.b64_protected u rfl ((b64_mem_names u hu).2 h)

theorem rejects_b64_not_in_crit (p : Hdr) (u : Option Hdr) (hp : WF p) (hu : WFo u)
    (h : p.b64.isSome) (hc : ∀ c, p.crit = some c → "b64" ∉ c) : validate (some p) u ≠ .ok () := by
  intro hv
  have hs := (validate_iff (some p) u (by intro h hh; cases hh; exact hp) hu).1 hv
  obtain ⟨c, h1, h2⟩ := hs.b64_in_crit p rfl ((b64_mem_names p hp).2 h)
  exact hc c h1 h2

theorem rejects_shared_name (p u : Hdr) (hp : WF p) (hu : WF u) (n : String)
    (h1 : n ∈ names p) (h2 : n ∈ names u) : validate (some p) (some u) ≠ .ok () := by
  intro hv
  have hs := (validate_iff (some p) (some u) (by intro h hh; cases hh; exact hp)
    (by intro h hh; cases hh; exact hu)).1 hv
  exact hs.disjoint p u rfl rfl n h1 h2

/-! ### general serialization: one effective `b64` per token -/

theorem generalEncoderAux_agree (b : Bool) (i : Nat) (rs : List (Option Hdr × Option Hdr))
    (h : generalEncoderAux b i rs = none) :
    ∀ r ∈ rs, extractB64 r.1 = b ∧ validateRecipient r.1 r.2 = .ok () := by
  induction rs generalizing i with
  | nil => simp
  | cons r rs ih =>
    obtain ⟨p, u⟩ := r
    unfold generalEncoderAux at h
    split at h
    · cases h
    · rename_i hb
      cases hv : validateRecipient p u with
      | error e => simp [hv] at h
      | ok _ =>
        simp only [hv] at h
        intro r hr
        rcases List.mem_cons.1 hr with h1 | h1
        · subst h1; exact ⟨by simpa using hb, hv⟩
        · exact ih (i + 1) h r h1

/-- every recipient list the general encoder accepts has one effective `b64`, and every
recipient passes the header policy -/
theorem general_encoder_b64_agree (rs : List (Option Hdr × Option Hdr))
    (h : generalEncoder rs = none) :
    ∀ r ∈ rs, ∀ r' ∈ rs, extractB64 r.1 = extractB64 r'.1 ∧ validateRecipient r.1 r.2 = .ok () := by
  cases rs with
  | nil => simp
  | cons r0 rest =>
    obtain ⟨p, u⟩ := r0
    unfold generalEncoder at h
    cases hv : validateRecipient p u with
    | error e => simp [hv] at h
    | ok _ =>
      simp only [hv] at h
      have hall := generalEncoderAux_agree (extractB64 p) 1 rest h
      have key : ∀ r ∈ (p, u) :: rest, extractB64 r.1 = extractB64 p ∧ validateRecipient r.1 r.2 = .ok () := by
        intro r hr
        rcases List.mem_cons.1 hr with h1 | h1
        · subst h1; exact ⟨rfl, hv⟩
        · exact hall r h1
      intro r hr r' hr'
      exact ⟨(key r hr).1.trans (key r' hr').1.symm, (key r hr).2⟩

/-- the general decoder (with the agreement test) never yields signatures with different `b64` -/
theorem general_decoder_b64_agree (sigs : List (Option Hdr × Option Hdr))
    (h : generalDecoderAgree true sigs = true) :
    ∀ r ∈ sigs, ∀ r' ∈ sigs, extractB64 r.1 = extractB64 r'.1 := by
  cases sigs with
  | nil => simp
  | cons s0 rest =>
    simp only [generalDecoderAgree, ↓reduceIte, List.all_eq_true, beq_iff_eq] at h
    have key : ∀ r ∈ s0 :: rest, extractB64 r.1 = extractB64 s0.1 := by
      intro r hr
      rcases List.mem_cons.1 hr with h1 | h1
      · subst h1; rfl
      · exact h r h1
    intro r hr r' hr'
    exact (key r hr).trans (key r' hr').symm

/-- a header pair with no header at all is rejected by the JSON encoders and the decoder -/
theorem no_header_rejected : validateRecipient none none = .error .missingHeader ∧
    decodeHeaders none none = .error .missingHeader := by decide

/-- verification is attempted only with an `alg` taken from the protected header -/
theorem verify_needs_protected_alg (p : Option Hdr) (a : String) :
    verifyGate p = .callVerifier a ↔ ∃ h, p = some h ∧ h.alg = some a := by
  unfold verifyGate
  cases p with
  | none => simp
  | some h => cases hh : h.alg <;> simp [hh]

/-! ### non-vacuity -/

example : WF { alg := some "EdDSA", b64 := some false, crit := some ["b64"], fields := ["kid"], custom := ["x"] } :=
  ⟨by decide, by decide, by decide⟩
example : validate (some { alg := some "EdDSA", b64 := some false, crit := some ["b64"], fields := ["kid"] })
    (some { fields := ["typ"], custom := ["x"] }) = .ok () := by decide
example : validate (some { alg := some "EdDSA", fields := ["kid"] }) (some { fields := ["kid"] })
    = .error .notDisjoint := by decide
example : validate (some { alg := some "EdDSA", custom := ["kid"] }) (some { fields := ["kid"] })
    = .error .notDisjoint := by decide

end IdModel.Props.C11
