//! C20 — the resolver dispatches by DID method and is independent of completion order.
//!
//! Requests:
//!   `C20 res H=<m>:<h>,… D=<m>.<n>`                      Resolver::resolve with the handler table H
//!   `C20 multi H=<m>:<h>,… D=<m>.<n>,… R=<rank>,…`       Resolver::resolve_multiple; R gives, per listed DID, when its handler
//!                                                         future completes (a controllable scheduler: a handler's future is
//!                                                         pending until every lower-ranked one has completed)
//!   `C20 jwk <variant>`                                  did:jwk resolution; variant = ed | p256 | edalg | edx5 (certificate members) | priv | garbage
//! Methods 1..3 are `m1`..`m3` (handlers take a CoreDID), method 4 is `iota` (the handler takes an IotaDID: ids that are odd
//! spell an invalid IOTA DID, so the handler's DID type refuses them), method 9 has no handler in any table.
//! Handlers by name: 1: ok for n < 50, else fails; 2: ok for even n, else fails; 3: always ok.  A later entry of H for the
//! same method replaces the earlier one.
use crate::jwtu::b64;
use crate::rng::Rng;
use identity_core::common::Object;
use identity_core::convert::FromJson;
use identity_core::convert::ToJson;
use identity_did::CoreDID;
use identity_did::DID;
use identity_document::document::CoreDocument;
use identity_iota_core::IotaDID;
use identity_resolver::Resolver;
use serde_json::Value;
use std::future::Future;
use std::io::Write;
use std::pin::Pin;
use std::sync::atomic::AtomicUsize;
use std::sync::atomic::Ordering;
use std::sync::Arc;
use std::sync::Mutex;
use std::task::Context;
use std::task::Poll;

fn did_string(m: u32, n: u32) -> String {
  match m {
    4 => {
      if n % 2 == 0 {
        format!("did:iota:0x{}", format!("{:02x}", n as u8).repeat(32))
      } else {
        format!("did:iota:bad{}", n)
      }
    }
    9 => format!("did:nohandler:x{}", n),
    _ => format!("did:m{}:x{}", m, n),
  }
}
fn parse_did(t: &str) -> Option<(u32, u32)> {
  let (a, b) = t.split_once('.')?;
  Some((a.parse().ok()?, b.parse().ok()?))
}
fn back(did: &str) -> String {
  // did string -> m.n
  if let Some(r) = did.strip_prefix("did:iota:0x") {
    return format!("4.{}", u32::from_str_radix(&r[..2], 16).unwrap_or(999));
  }
  if let Some(r) = did.strip_prefix("did:iota:bad") {
    return format!("4.{}", r);
  }
  if let Some(r) = did.strip_prefix("did:nohandler:x") {
    return format!("9.{}", r);
  }
  let r = did.trim_start_matches("did:m");
  let (m, n) = r.split_once(":x").unwrap_or(("?", "?"));
  format!("{}.{}", m, n)
}

fn behaves(name: u32, n: u32) -> bool {
  match name {
    1 => n < 50,
    2 | 4 => n % 2 == 0,
    _ => true,
  }
}

/// handler 4 is built on a resolver of its own (as the library's multi-network IOTA handler is): it behaves like handler
/// 2, but its error is an `identity_resolver::Error` — the inner resolver's "unsupported method" for a DID whose method
/// name spells the DID that was asked for
async fn handle_nested(did: String, sched: Arc<Sched>) -> Result<CoreDocument, identity_resolver::Error> {
  let (m, n) = back(&did).split_once('.').map(|(a, b)| (a.to_string(), b.to_string())).unwrap_or_default();
  if behaves(4, n.parse().unwrap_or(0)) {
    Ok(handle(4, did, sched).await.expect("handler 4 succeeds on even ids"))
  } else {
    sched.log.lock().unwrap().push(format!("4:{}", back(&did)));
    let rank = sched.ranks.lock().unwrap().iter().find(|(d, _)| *d == did).map(|(_, r)| *r);
    if let Some(rank) = rank {
      WaitTurn { rank, sched: sched.clone(), polled: false }.await;
    }
    let inner: Resolver<CoreDocument> = Resolver::new();
    let probe = CoreDID::parse(format!("did:f{}x{}:zz", m, n)).unwrap();
    Err(inner.resolve(&probe).await.expect_err("the inner resolver has no handlers"))
  }
}

struct Sched {
  turn: AtomicUsize,
  /// rank of each DID string whose handler will be invoked
  ranks: Mutex<Vec<(String, usize)>>,
  log: Mutex<Vec<String>>,
}

struct WaitTurn {
  rank: usize,
  sched: Arc<Sched>,
  polled: bool,
}
impl Future for WaitTurn {
  type Output = ();
  fn poll(mut self: Pin<&mut Self>, cx: &mut Context<'_>) -> Poll<()> {
    // always pending once, so that resolutions that fail before reaching a handler complete first
    if !self.polled || self.sched.turn.load(Ordering::SeqCst) != self.rank {
      self.polled = true;
      cx.waker().wake_by_ref();
      return Poll::Pending;
    }
    self.sched.turn.fetch_add(1, Ordering::SeqCst);
    Poll::Ready(())
  }
}

async fn handle(name: u32, did: String, sched: Arc<Sched>) -> Result<CoreDocument, std::io::Error> {
  sched.log.lock().unwrap().push(format!("{}:{}", name, back(&did)));
  let rank = sched.ranks.lock().unwrap().iter().find(|(d, _)| *d == did).map(|(_, r)| *r);
  if let Some(rank) = rank {
    WaitTurn { rank, sched: sched.clone(), polled: false }.await;
  }
  let n: u32 = back(&did).split_once('.').and_then(|(_, n)| n.parse().ok()).unwrap_or(0);
  if behaves(name, n) {
    let mut props = Object::new();
    props.insert("handler".into(), Value::from(name));
    CoreDocument::builder(props).id(CoreDID::parse(&did).unwrap()).build().map_err(|e| std::io::Error::new(std::io::ErrorKind::Other, e.to_string()))
  } else {
    Err(std::io::Error::new(std::io::ErrorKind::Other, format!("handler {} fails for {}", name, did)))
  }
}

fn build(h: &str, sched: &Arc<Sched>) -> Option<Resolver<CoreDocument>> {
  let mut r: Resolver<CoreDocument> = Resolver::new();
  if h == "-" {
    return Some(r);
  }
  for e in h.split(',') {
    let (m, name) = e.split_once(':')?;
    let m: u32 = m.parse().ok()?;
    let name: u32 = name.parse().ok()?;
    let s = sched.clone();
    if name == 4 {
      if m == 4 {
        r.attach_handler("iota".to_string(), move |did: IotaDID| {
          let s = s.clone();
          async move { handle_nested(did.to_string(), s).await }
        });
      } else {
        r.attach_handler(format!("m{}", m), move |did: CoreDID| {
          let s = s.clone();
          async move { handle_nested(did.to_string(), s).await }
        });
      }
    } else if m == 4 {
      r.attach_handler("iota".to_string(), move |did: IotaDID| {
        let s = s.clone();
        async move { handle(name, did.to_string(), s).await }
      });
    } else {
      r.attach_handler(format!("m{}", m), move |did: CoreDID| {
        let s = s.clone();
        async move { handle(name, did.to_string(), s).await }
      });
    }
  }
  Some(r)
}

fn show_doc(d: &CoreDocument) -> String {
  format!("{}:{}", d.properties().get("handler").and_then(|v| v.as_u64()).unwrap_or(0), back(d.id().as_str()))
}

fn err_kind(e: &identity_resolver::Error) -> String {
  use identity_resolver::ErrorCause;
  let s = format!("{:?}", e);
  match e.error_cause() {
    ErrorCause::UnsupportedMethodError { .. } => "unsupported".into(),
    ErrorCause::DIDParsingError { .. } => "parse".into(),
    ErrorCause::HandlerError { .. } => {
      // the handler's message names the DID (handler 4: the method name of the inner resolver's error spells it)
      if let Some(i) = s.find("fails for ") {
        let rest: String = s[i + 10..].chars().take_while(|c| !c.is_whitespace() && *c != '"' && *c != '\\').collect();
        format!("handler:{}", back(&rest))
      } else if let Some(i) = s.find("method: \"f") {
        let rest: String = s[i + 10..].chars().take_while(|c| c.is_ascii_alphanumeric()).collect();
        format!("handler:{}", rest.replace('x', "."))
      } else {
        "handler".into()
      }
    }
    _ => format!("?{}", s.chars().take(60).collect::<String>()),
  }
}

/// the table as the model sees it: method -> handler name (last entry wins)
fn table(h: &str) -> Vec<(u32, u32)> {
  let mut t: Vec<(u32, u32)> = vec![];
  if h != "-" {
    for e in h.split(',') {
      if let Some((m, n)) = e.split_once(':') {
        let (m, n) = (m.parse().unwrap_or(0), n.parse().unwrap_or(0));
        t.retain(|x| x.0 != m);
        t.push((m, n));
      }
    }
  }
  t
}

pub fn run(args: &[&str]) -> String {
  let sched = Arc::new(Sched { turn: AtomicUsize::new(0), ranks: Mutex::new(vec![]), log: Mutex::new(vec![]) });
  match args {
    ["res", h, d] => {
      let (h, d) = match (h.strip_prefix("H="), d.strip_prefix("D=").and_then(parse_did)) {
        (Some(a), Some(b)) => (a, b),
        _ => return "bad-request".into(),
      };
      let r = match build(h, &sched) {
        Some(r) => r,
        None => return "bad-request".into(),
      };
      let did = CoreDID::parse(did_string(d.0, d.1)).unwrap();
      let res = futures::executor::block_on(r.resolve(&did));
      let calls = sched.log.lock().unwrap().join("+");
      match res {
        Ok(doc) => format!("ok:{} calls={}", show_doc(&doc), calls),
        Err(e) => format!("err:{} calls={}", err_kind(&e), calls),
      }
    }
    ["multi", h, d, rk] => {
      let (h, ds, rk) = match (h.strip_prefix("H="), d.strip_prefix("D="), rk.strip_prefix("R=")) {
        (Some(a), Some(b), Some(c)) => (a, b, c),
        _ => return "bad-request".into(),
      };
      let dids: Vec<(u32, u32)> = match ds.split(',').map(parse_did).collect::<Option<Vec<_>>>() {
        Some(v) => v,
        None => return "bad-request".into(),
      };
      let ranks: Vec<usize> = match rk.split(',').map(|x| x.parse().ok()).collect::<Option<Vec<_>>>() {
        Some(v) if v.len() == dids.len() => v,
        _ => return "bad-request".into(),
      };
      let tbl = table(h);
      // which distinct DIDs reach a handler, ordered by the requested rank of their first occurrence
      let mut waiters: Vec<(usize, usize, String)> = vec![];
      let mut immediate = false;
      let mut seen: Vec<(u32, u32)> = vec![];
      for (i, d) in dids.iter().enumerate() {
        if seen.contains(d) {
          continue;
        }
        seen.push(*d);
        let has = tbl.iter().any(|x| x.0 == d.0);
        let parses = !(d.0 == 4 && d.1 % 2 == 1);
        if has && parses {
          waiters.push((ranks[i], i, did_string(d.0, d.1)));
        } else {
          immediate = true;
        }
      }
      waiters.sort();
      *sched.ranks.lock().unwrap() = waiters.iter().enumerate().map(|(pos, (_, _, d))| (d.clone(), pos)).collect();
      let r = match build(h, &sched) {
        Some(r) => r,
        None => return "bad-request".into(),
      };
      let list: Vec<CoreDID> = dids.iter().map(|d| CoreDID::parse(did_string(d.0, d.1)).unwrap()).collect();
      match futures::executor::block_on(r.resolve_multiple(&list)) {
        Ok(map) => {
          let mut entries: Vec<String> = map.iter().map(|(k, v)| format!("{}>{}", back(k.as_str()), show_doc(v))).collect();
          entries.sort();
          // each entry equals what single resolution returns
          let mut fail = None;
          for (k, v) in map.iter() {
            let s2 = Arc::new(Sched { turn: AtomicUsize::new(0), ranks: Mutex::new(vec![]), log: Mutex::new(vec![]) });
            let r2 = build(h, &s2).unwrap();
            match futures::executor::block_on(r2.resolve(k)) {
              Ok(d2) if d2 == *v => {}
              _ => fail = Some(format!("multi-differs-from-single:{}", k)),
            }
          }
          let line = format!("ok:{}", entries.join(","));
          match fail {
            Some(f) => format!("{}\t#FAIL:{}", line, f),
            None => line,
          }
        }
        Err(e) => {
          let k = err_kind(&e);
          if immediate {
            // which of the resolutions that fail before reaching a handler is reported depends on the iteration order
            // of a HashSet; all that is fixed is that it is one of them
            if k == "unsupported" || k == "parse" {
              "err:immediate".into()
            } else {
              format!("err:{}\t#FAIL:multi-first-error:a handler error {} is reported although a resolution failed before reaching any handler", k, k)
            }
          } else {
            format!("err:{}", k)
          }
        }
      }
    }
    ["jwk", v] => {
      let jwk_json = match *v {
        "ed" => r#"{"kty":"OKP","crv":"Ed25519","x":"11qYAYKxCrfVS_7TyWQHOg7hcvPapiMlrwIaaPcHURo"}"#.to_string(),
        "edalg" => r#"{"kty":"OKP","crv":"Ed25519","x":"11qYAYKxCrfVS_7TyWQHOg7hcvPapiMlrwIaaPcHURo","alg":"EdDSA","kid":"k","use":"sig"}"#.to_string(),
        "edx5" => r#"{"kty":"OKP","crv":"Ed25519","x":"11qYAYKxCrfVS_7TyWQHOg7hcvPapiMlrwIaaPcHURo","x5u":"https://example.com/cert.pem","x5t":"dGVzdA","x5c":["MIIB"],"key_ops":["verify"]}"#.to_string(),
        "p256" => r#"{"kty":"EC","crv":"P-256","x":"acbIQiuMs3i8_uszEjJ2tpTtRM4EU3yz91PH6CdH2V0","y":"_KcyLj9vWMptnmKtm46GqDz8wf74I5LKgrl2GzH3nSE"}"#.to_string(),
        "priv" => r#"{"kty":"OKP","crv":"Ed25519","x":"11qYAYKxCrfVS_7TyWQHOg7hcvPapiMlrwIaaPcHURo","d":"nWGxne_9WmC6hEr0kuwsxERJxWl7MmkZcDusAxyuf2A"}"#.to_string(),
        // long identifiers: an RSA-2048 key with metadata, an Ed25519 key with a certificate chain
        "rsa" => format!(r#"{{"kty":"RSA","n":"{}","e":"AQAB","alg":"RS256","kid":"key-1","use":"sig"}}"#, "sXchDaQebHnPiGvyDOAT4saGEUetSyo9MKLOoWFsueri23bOdgWp4Dy1WlUzewbgBHod5pcM9H95GQRV3JDXboIRROSBigeC5yjU1hGzHHyXss8UDprecbAYxknTcQkhslANGRUZmdTOQ5qTRsLAt6BTYuyvVRdhS8exSZEy_c4gs_7svlJJQ4H9_NxsiIoLwAEk7-Q3UXERGYw_75IDrGA84-lA_-Ct4eTlXHBIY2EaV7t7LjJaynVJCpkv4LKjTTAumiGUIuQhrNhZLuF_RJLqHpM2kgWFLU7-VTdL1VbC2tejvcI2BlMkEpk1BzBZI0KQB0GaDWFLN-aEAw3vRw"),
        "edchain" => format!(r#"{{"kty":"OKP","crv":"Ed25519","x":"11qYAYKxCrfVS_7TyWQHOg7hcvPapiMlrwIaaPcHURo","kid":"key-1","x5c":["{}","{}"]}}"#, "MIIB".repeat(150), "QUJD".repeat(90)),
        // EC keys of every curve with the algorithm of that curve spelled out
        "p256alg" => r#"{"kty":"EC","crv":"P-256","x":"acbIQiuMs3i8_uszEjJ2tpTtRM4EU3yz91PH6CdH2V0","y":"_KcyLj9vWMptnmKtm46GqDz8wf74I5LKgrl2GzH3nSE","alg":"ES256"}"#.to_string(),
        "p384alg" => format!(r#"{{"kty":"EC","crv":"P-384","x":"{}","y":"{}","alg":"ES384"}}"#, b64(&[7u8; 48]), b64(&[9u8; 48])),
        "p521alg" => format!(r#"{{"kty":"EC","crv":"P-521","x":"{}","y":"{}","alg":"ES512"}}"#, b64(&[7u8; 66]), b64(&[9u8; 66])),
        "p521" => format!(r#"{{"kty":"EC","crv":"P-521","x":"{}","y":"{}"}}"#, b64(&[7u8; 66]), b64(&[9u8; 66])),
        "k256alg" => r#"{"kty":"EC","crv":"secp256k1","x":"WfY7Px6AgH6x-_dgAoRbg8weYRJA36ON-gQiFnETrqw","y":"bVy-z-v_-Y9nN2o8kw2bp6Vn7a8Sjp_NL3Dq_vCr4KQ","alg":"ES256K"}"#.to_string(),
        "x25519" => r#"{"kty":"OKP","crv":"X25519","x":"3p7bfXt9wbTTW2HC7OQ1Nz-DQ8hbeGdNrfx-FG-IK08","use":"enc"}"#.to_string(),
        "garbage" => "not json".to_string(),
        _ => return "bad-request".into(),
      };
      let did_s = format!("did:jwk:{}", b64(jwk_json.as_bytes()));
      let did = match CoreDID::parse(&did_s) {
        Ok(d) => d,
        Err(_) => return "bad-request".into(),
      };
      let mut r: Resolver<CoreDocument> = Resolver::new();
      r.attach_did_jwk_handler();
      match futures::executor::block_on(r.resolve(&did)) {
        Err(e) => format!("err:{}", err_kind(&e).split(':').next().unwrap_or("?")),
        Ok(doc) => {
          let j: Value = serde_json::from_str(&doc.to_json().unwrap_or_default()).unwrap_or(Value::Null);
          let vms = j.get("verificationMethod").and_then(|v| v.as_array()).cloned().unwrap_or_default();
          let m0 = vms.first().cloned().unwrap_or(Value::Null);
          let same = m0.get("publicKeyJwk") == serde_json::from_str::<Value>(&jwk_json).ok().as_ref();
          let mid = m0.get("id").and_then(|v| v.as_str()).unwrap_or("").to_string();
          let frag = mid.rsplit('#').next().unwrap_or("?").to_string();
          let mut rels: Vec<u32> = vec![];
          let mut other = false;
          for (i, k) in ["authentication", "assertionMethod", "keyAgreement", "capabilityDelegation", "capabilityInvocation"].iter().enumerate() {
            if let Some(a) = j.get(*k).and_then(|v| v.as_array()) {
              if a.len() == 1 && a[0].as_str() == Some(mid.as_str()) {
                rels.push(i as u32);
              } else if !a.is_empty() {
                other = true;
              }
            }
          }
          // the document's own JSON must be accepted again
          let rt = CoreDocument::from_json(&doc.to_json().unwrap_or_default()).map(|d| d == doc).unwrap_or(false);
          let embedded_elsewhere = ["authentication", "assertionMethod", "keyAgreement", "capabilityDelegation", "capabilityInvocation"]
            .iter()
            .any(|k| j.get(*k).and_then(|v| v.as_array()).map(|a| a.iter().any(|x| x.is_object())).unwrap_or(false));
          format!(
            "ok:id={};vm={};frag={};key={};rels={};other={};rt={}",
            (doc.id().as_str() == did_s) as u8,
            vms.len(),
            frag,
            same as u8,
            rels.iter().map(|x| x.to_string()).collect::<Vec<_>>().join("+"),
            (other || embedded_elsewhere) as u8,
            rt as u8
          )
        }
      }
    }
    ["jwkmulti", n] => {
      // resolve_multiple over DIDJwk values: n textually different did:jwk DIDs that all encode ONE key (member order,
      // whitespace, an extra optional member), one DID of another key, and a literal duplicate.  One entry per distinct DID
      // (a DID is its string), each equal to what single resolution returns.
      use identity_did::DIDJwk;
      let Ok(n) = n.parse::<usize>() else { return "bad-request".into() };
      let x = "11qYAYKxCrfVS_7TyWQHOg7hcvPapiMlrwIaaPcHURo";
      let forms = [
        format!(r#"{{"kty":"OKP","crv":"Ed25519","x":"{}"}}"#, x),
        format!(r#"{{"crv":"Ed25519","kty":"OKP","x":"{}"}}"#, x),
        format!(r#"{{"x":"{}","kty":"OKP","crv":"Ed25519"}}"#, x),
        format!(r#"{{ "kty": "OKP", "crv": "Ed25519", "x": "{}" }}"#, x),
        format!(r#"{{"kty":"OKP","crv":"Ed25519","x":"{}","kid":"k"}}"#, x),
      ];
      let mut strs: Vec<String> = forms.iter().take(n.min(forms.len())).map(|j| format!("did:jwk:{}", b64(j.as_bytes()))).collect();
      strs.push(format!("did:jwk:{}", b64(br#"{"kty":"OKP","crv":"Ed25519","x":"AAAAAAAAAAAAAAAAAAAAAAAAAAAAAAAAAAAAAAAAAAA"}"#)));
      strs.push(strs[0].clone());
      let dids: Vec<DIDJwk> = match strs.iter().map(|s| DIDJwk::parse(s)).collect::<Result<_, _>>() {
        Ok(d) => d,
        Err(_) => return "bad-request".into(),
      };
      let mut r: Resolver<CoreDocument> = Resolver::new();
      r.attach_did_jwk_handler();
      let multi = match futures::executor::block_on(r.resolve_multiple(&dids)) {
        Ok(m) => m,
        Err(e) => return format!("err:{}", err_kind(&e).split(':').next().unwrap_or("?")),
      };
      let distinct: std::collections::BTreeSet<&String> = strs.iter().collect();
      let mut fail = String::new();
      if multi.len() != distinct.len() {
        fail = format!("\t#FAIL:jwk-multi-entries:{} distinct did:jwk DIDs were given, {} entries came back", distinct.len(), multi.len());
      }
      for d in &dids {
        let single = futures::executor::block_on(r.resolve(d)).ok();
        let got = multi.iter().find(|(k, _)| k.as_str() == d.as_str()).map(|(_, v)| v.clone());
        if fail.is_empty() && (single.is_none() || got != single) {
          fail = format!("\t#FAIL:jwk-multi-differs-from-single:the entry for {} is not what single resolution returns", &d.as_str()[..30.min(d.as_str().len())]);
        }
      }
      format!("ok:{}{}", multi.len(), fail)
    }
    _ => "bad-request".into(),
  }
}

fn perms(n: usize) -> Vec<Vec<usize>> {
  if n == 0 {
    return vec![vec![]];
  }
  let mut out = vec![];
  for p in perms(n - 1) {
    for i in 0..n {
      let mut q = p.clone();
      q.insert(i, n - 1);
      out.push(q);
    }
  }
  out
}

pub fn gen(thorough: bool, seed: u64, out: &mut impl Write) {
  let mut r = Rng::new(seed ^ 0xC20);
  let tables = ["-", "1:1", "1:1,2:2", "1:1,2:2,3:3,4:3", "1:1,1:3", "2:1,1:2", "4:1,1:3", "1:4,2:2", "1:4,2:4,3:3,4:4"];
  // (a) single resolution: every table x DIDs of every method, succeeding / failing / unparsable ids
  for h in tables {
    for m in [1u32, 2, 3, 4, 9] {
      for n in [0u32, 1, 2, 3, 49, 50, 51] {
        writeln!(out, "C20 res H={} D={}.{}", h, m, n).unwrap();
      }
    }
  }
  // (b) resolve_multiple: every completion order of up to four distinct DIDs, with duplicates in the input
  let sets: [&[(u32, u32)]; 8] = [
    &[(1, 0), (2, 2), (3, 1)],
    &[(1, 0), (1, 2), (2, 4), (3, 7)],
    &[(1, 0), (1, 60), (2, 2)],
    &[(1, 60), (1, 70), (2, 3)],
    &[(1, 0), (9, 1), (2, 2)],
    &[(4, 2), (4, 3), (1, 0)],
    &[(4, 2), (4, 4), (1, 0), (3, 5)],
    &[(1, 0)],
  ];
  for h in ["1:1,2:2,3:3,4:3", "1:1,2:2", "1:3,2:3,3:3,4:1", "1:4,2:2,3:4,4:4"] {
    for set in sets {
      for p in perms(set.len()) {
        // with and without duplicates in the input list
        for dup in [false, true] {
          let mut ds: Vec<String> = set.iter().map(|(m, n)| format!("{}.{}", m, n)).collect();
          let mut rk: Vec<String> = p.iter().map(|x| x.to_string()).collect();
          if dup {
            ds.push(ds[0].clone());
            rk.push("0".into());
            ds.insert(1, ds[set.len() - 1].clone());
            rk.insert(1, "9".into());
          }
          writeln!(out, "C20 multi H={} D={} R={}", h, ds.join(","), rk.join(",")).unwrap();
        }
      }
    }
  }
  for _ in 0..(if thorough { 5000 } else { 400 }) {
    let n = 1 + r.below(6) as usize;
    let ds: Vec<String> = (0..n).map(|_| format!("{}.{}", r.pick(&[1, 1, 1, 2, 2, 2, 3, 3, 3, 4, 4, 4, 4, 9]), r.pick(&[0, 2, 4, 6, 48, 8, 10, 12, 3, 60]))).collect();
    let rk: Vec<String> = (0..n).map(|_| r.below(10).to_string()).collect();
    writeln!(out, "C20 multi H={} D={} R={}", r.pick(&tables[1..]), ds.join(","), rk.join(",")).unwrap();
  }
  // (b') long lists: more distinct DIDs than any plausible batch size, in rank order and against it, with duplicates,
  // one failing resolution near the end
  for count in [63usize, 64, 65, 66, 128, 129, 200] {
    for (fail, rev) in [(false, false), (false, true), (true, false)] {
      let mut ds: Vec<String> = (0..count).map(|i| format!("{}.{}", [3, 1, 2][i % 3], 2 * (i / 3))).collect();
      if fail {
        ds[count - 2] = "1.60".into();
      }
      ds.push(ds[0].clone());
      let rk: Vec<String> = (0..ds.len()).map(|i| if rev { (ds.len() - i).to_string() } else { (i % 10).to_string() }).collect();
      writeln!(out, "C20 multi H=1:1,2:2,3:3 D={} R={}", ds.join(","), rk.join(",")).unwrap();
    }
  }
  // (c) did:jwk
  for n in [1usize, 2, 3, 5] {
    writeln!(out, "C20 jwkmulti {}", n).unwrap();
  }
  for v in ["ed", "edalg", "edx5", "p256", "rsa", "edchain", "priv", "garbage", "p256alg", "p384alg", "p521alg", "p521", "k256alg", "x25519"] {
    writeln!(out, "C20 jwk {}", v).unwrap();
  }
}
