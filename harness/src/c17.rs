//! C17 — IotaDID / NetworkName against the Lean model `IdModel.IotaDid`.
use crate::rng::{hex, unhex, Rng};
use identity_core::convert::{FromJson, ToJson};
use identity_did::{CoreDID, DID};
use identity_iota_core::{IotaDID, NetworkName};
use std::collections::hash_map::DefaultHasher;
use std::hash::{Hash, Hasher};
use std::io::Write;

fn arg(h: &str) -> Option<String> {
  String::from_utf8(unhex(h)?).ok()
}

fn show(d: &IotaDID) -> String {
  format!(
    "ok:{}:{}:{}:{}",
    hex(d.as_str().as_bytes()),
    hex(d.network_str().as_bytes()),
    hex(d.tag_str().as_bytes()),
    if d.is_placeholder() { "P" } else { "N" }
  )
}

fn tag_bytes(tag: &str) -> Option<Vec<u8>> {
  let t = tag.strip_prefix("0x")?;
  if t.len() != 64 {
    return None;
  }
  (0..32).map(|i| u8::from_str_radix(t.get(2 * i..2 * i + 2)?, 16).ok()).collect()
}

fn oracle(d: &IotaDID) -> Option<String> {
  let s = d.as_str();
  if d.method() != "iota" {
    return Some(format!("iota-method:{:?}", d.method()));
  }
  let n = d.network_str();
  if n.is_empty() || n.len() > 6 || !n.chars().all(|c| c.is_ascii_lowercase() || c.is_ascii_digit()) {
    return Some(format!("iota-network-syntax:{:?}", n));
  }
  let t = d.tag_str();
  let ok_tag = t.len() == 66 && t.starts_with("0x") && t[2..].chars().all(|c| c.is_ascii_digit() || ('a'..='f').contains(&c));
  if !ok_tag {
    return Some(format!("iota-tag-syntax:{:?}", t));
  }
  if s.chars().any(|c| c.is_uppercase()) {
    return Some("iota-not-lowercase:".into());
  }
  let want = if n == "iota" { format!("did:iota:{}", t) } else { format!("did:iota:{}:{}", n, t) };
  if s != want || d.to_string() != want {
    return Some(format!("iota-not-normal-form:{:?} expected {:?}", s, want));
  }
  if s.contains('/') || s.contains('?') || s.contains('#') {
    return Some("iota-carries-url-parts:".into());
  }
  match IotaDID::parse(s) {
    Ok(d2) if &d2 == d && d2.network_str() == n && d2.tag_str() == t => {}
    _ => return Some("iota-reparse:".into()),
  }
  match d.to_json().ok().and_then(|j| IotaDID::from_json(&j).ok()) {
    Some(d2) if &d2 == d => {}
    _ => return Some("iota-json-roundtrip:".into()),
  }
  match IotaDID::try_from(CoreDID::from(d.clone())) {
    Ok(d2) if &d2 == d => {}
    _ => return Some("iota-try-from-core:".into()),
  }
  // every other view of the value is the same string, and the library's own validity tests accept it
  let views: [(&str, String); 7] = [
    ("into_string", d.clone().into_string()),
    ("Into<String>", String::from(d.clone())),
    ("Into<CoreDID>", CoreDID::from(d.clone()).to_string()),
    ("AsRef<CoreDID>", AsRef::<CoreDID>::as_ref(d).to_string()),
    ("key", identity_core::common::KeyComparable::key(d).to_string()),
    ("to_url", d.to_url().to_string()),
    ("scheme:authority", format!("{}:{}", d.scheme(), d.authority())),
  ];
  for (name, v) in views {
    if v != s {
      return Some(format!("iota-not-normal-form:{} gives {:?} for {:?}", name, v, s));
    }
  }
  let core = CoreDID::from(d.clone());
  if !IotaDID::is_valid(&core) || IotaDID::check_validity(&core).is_err() || IotaDID::check_validity(d).is_err() {
    return Some("iota-validity-tests-disagree:is_valid / check_validity refuse an accepted IotaDID".into());
  }
  if d.is_placeholder() != (t == IotaDID::PLACEHOLDER_TAG) || d.is_placeholder() != (tag_bytes(t) == Some(vec![0u8; 32])) {
    return Some("iota-placeholder:is_placeholder disagrees with the tag".into());
  }
  match NetworkName::try_from(n.to_string()) {
    Ok(net) => {
      let again = IotaDID::from_alias_id(t, &net);
      if &again != d || again.to_string() != s {
        return Some("iota-reparse:from_alias_id(tag_str, network_str) differs".into());
      }
    }
    Err(_) => return Some(format!("iota-network-syntax:NetworkName refuses {:?}", n)),
  }
  None
}

fn with(obs: String, f: Option<String>) -> String {
  match f {
    Some(f) => format!("{}\t#FAIL:{}", obs, f),
    None => obs,
  }
}

fn hash_of<T: Hash>(t: &T) -> u64 {
  let mut h = DefaultHasher::new();
  t.hash(&mut h);
  h.finish()
}

pub fn run(args: &[&str]) -> String {
  match args {
    ["parse", orig, lower] => {
      let (Some(s), Some(l)) = (arg(orig), arg(lower)) else { return "bad-request".into() };
      if s.to_lowercase() != l {
        return "bad-request".into();
      }
      let s2 = s.clone();
      // every way of constructing an IotaDID from this string must treat it exactly as `parse` does
      let paths = |parsed: Option<&IotaDID>| -> Option<String> {
        let js = serde_json::to_string(&s).unwrap_or_default();
        let (sa, sb, sc) = (s.clone(), s.clone(), s.clone());
        let rs: [(&str, std::thread::Result<Option<IotaDID>>); 4] = [
          ("FromStr", std::panic::catch_unwind(move || sa.parse::<IotaDID>().ok())),
          ("TryFrom<&str>", std::panic::catch_unwind(move || IotaDID::try_from(sb.as_str()).ok())),
          ("TryFrom<String>", std::panic::catch_unwind(move || IotaDID::try_from(sc).ok())),
          ("Deserialize", std::panic::catch_unwind(move || serde_json::from_str::<IotaDID>(&js).ok())),
        ];
        for (name, r) in rs {
          match r {
            Err(_) => return Some(format!("construction-paths-differ:{} panics on {:?}", name, s)),
            // what another path accepts must itself satisfy the property, and denote the same DID as `parse` when both
            // accept (whether a path accepts at all is its own business: `parse` lower-cases with Unicode rules, the
            // conversion from a CoreDID with ASCII rules)
            Ok(Some(v)) => {
              if let Some(f) = oracle(&v) {
                return Some(format!("{} (value accepted by {})", f, name));
              }
              if let Some(p) = parsed {
                if *p != v || p.to_string() != v.to_string() {
                  return Some(format!("construction-paths-differ:{} gives {:?} for {:?}, parse gives {:?}", name, v.to_string(), s, p.to_string()));
                }
              }
            }
            Ok(None) => {}
          }
        }
        None
      };
      match std::panic::catch_unwind(move || IotaDID::parse(&s2)) {
        Err(_) => "panic\t#FAIL:panic:IotaDID::parse panicked".into(),
        Ok(Err(_)) => with("err".into(), paths(None)),
        Ok(Ok(d)) => with(show(&d), oracle(&d).or_else(|| paths(Some(&d)))),
      }
    }
    ["fromcore", h] => {
      let Some(s) = arg(h) else { return "bad-request".into() };
      let Ok(core) = CoreDID::parse(&s) else { return "core-err".into() };
      let c2 = core.clone();
      let valid = IotaDID::is_valid(&core);
      if valid != IotaDID::check_validity(&core).is_ok() {
        return "x\t#FAIL:iota-validity-tests-disagree:is_valid differs from check_validity".into();
      }
      // what the validity test accepts converts (the conversion additionally lower-cases)
      if valid && IotaDID::try_from(core.clone()).is_err() {
        return "x\t#FAIL:iota-validity-tests-disagree:is_valid accepts what try_from refuses".into();
      }
      if !valid && !s.chars().any(|c| c.is_uppercase()) && IotaDID::try_from(core.clone()).is_ok() {
        return "x\t#FAIL:iota-validity-tests-disagree:try_from accepts a lower-case DID that is_valid refuses".into();
      }
      if let Ok(b) = identity_did::BaseDIDUrl::parse(&s) {
        match (IotaDID::try_from(b), IotaDID::try_from(core.clone())) {
          (Ok(x), Ok(y)) if x == y => {}
          (Err(_), Err(_)) => {}
          _ => return "x\t#FAIL:try-from-core-differs-from-parse:TryFrom<BaseDIDUrl> differs from TryFrom<CoreDID>".into(),
        }
      }
      match std::panic::catch_unwind(move || IotaDID::try_from(c2)) {
        Err(_) => "panic\t#FAIL:panic:IotaDID::try_from(CoreDID) panicked".into(),
        Ok(Err(_)) => {
          // the serde path must agree
          let j = format!("\"{}\"", s);
          with("err".into(), if IotaDID::from_json(&j).is_ok() { Some("serde-accepts-what-try-from-rejects:".into()) } else { None })
        }
        Ok(Ok(d)) => {
          let j = format!("\"{}\"", s);
          let f = oracle(&d).or_else(|| match IotaDID::from_json(&j) {
            Ok(d2) if d2 == d => None,
            _ => Some("serde-differs-from-try-from:".into()),
          }).or_else(|| match IotaDID::parse(&s) {
            Ok(d3) if d3 == d => None,
            _ => Some("try-from-core-differs-from-parse:".into()),
          });
          with(show(&d), f)
        }
      }
    }
    ["new", b, n] => {
      let (Some(b), Some(n)) = (unhex(b), arg(n)) else { return "bad-request".into() };
      let Ok(bytes): Result<[u8; 32], _> = b.clone().try_into() else { return "bad-request".into() };
      let Ok(net) = NetworkName::try_from(n.clone()) else { return "bad-network".into() };
      match std::panic::catch_unwind(move || IotaDID::new(&bytes, &net)) {
        Err(_) => "panic\t#FAIL:panic:IotaDID::new panicked for a valid network name".into(),
        Ok(d) => {
          let f = oracle(&d).or_else(|| {
            if d.network_str() != n {
              Some(format!("new-network-differs:{:?}", d.network_str()))
            } else if tag_bytes(d.tag_str()) != Some(b.clone()) {
              Some("new-tag-bytes-differ:".into())
            } else if {
              // the alias id spelled in upper-case hex denotes the same bytes
              let up = format!("0x{}", b.iter().map(|x| format!("{:02X}", x)).collect::<String>());
              let net = NetworkName::try_from(n.clone()).unwrap();
              let a = IotaDID::from_alias_id(&up, &net);
              a != d || a.to_string() != d.to_string() || oracle(&a).is_some()
            } {
              Some("iota-not-lowercase:from_alias_id with an upper-case alias id differs from new(bytes, network)".into())
            } else if d.is_placeholder() != b.iter().all(|x| *x == 0) {
              Some("iota-placeholder:is_placeholder disagrees with the bytes".into())
            } else {
              let net = NetworkName::try_from(n.clone()).unwrap();
              let ph = IotaDID::placeholder(&net);
              if !ph.is_placeholder() || ph.network_str() != n || tag_bytes(ph.tag_str()) != Some(vec![0u8; 32]) || (d.is_placeholder() && ph != d) {
                Some("iota-placeholder:placeholder(network) is not the all-zero tag on that network".into())
              } else {
                oracle(&ph)
              }
            }
          });
          with(show(&d), f)
        }
      }
    }
    ["net", n] => {
      let Some(n) = arg(n) else { return "bad-request".into() };
      let ok = NetworkName::try_from(n.clone()).is_ok();
      if ok != NetworkName::validate_network_name(&n).is_ok() {
        return "x\t#FAIL:network-name-rule:validate_network_name differs from try_from".into();
      }
      if let Ok(net) = NetworkName::try_from(n.clone()) {
        let same = AsRef::<str>::as_ref(&net) == n && net.to_string() == n && format!("{:?}", net) == n && &*net == n.as_str();
        let json = net.to_json().ok().and_then(|j| NetworkName::from_json(&j).ok()) == Some(net.clone());
        if !same || !json {
          return "x\t#FAIL:network-name-rule:a view of the accepted name differs from it".into();
        }
      } else if let Ok(bad) = NetworkName::from_json(&serde_json::to_string(&n).unwrap_or_default()) {
        // what such a name does to a DID built from it
        let built = std::panic::catch_unwind(|| IotaDID::new(&[7u8; 32], &bad).network_str().to_string());
        return format!(
          "x\t#FAIL:network-name-rule:deserialisation accepts the refused name {:?}; IotaDID::new with it {}",
          n,
          match built {
            Ok(net) => format!("yields network {:?}", net),
            Err(_) => "panics".to_string(),
          }
        );
      }
      let want = !n.is_empty() && n.len() <= 6 && n.chars().all(|c| c.is_ascii_lowercase() || c.is_ascii_digit());
      with(if ok { "ok" } else { "err" }.into(), if ok != want { Some(format!("network-name-rule:{:?}", n)) } else { None })
    }
    ["eq", a, la, b, lb] => {
      let (Some(a), Some(b)) = (arg(a), arg(b)) else { return "bad-request".into() };
      let _ = (la, lb);
      let (Ok(x), Ok(y)) = (IotaDID::parse(&a), IotaDID::parse(&b)) else { return "bad-request".into() };
      let e = x == y;
      let same = x.network_str() == y.network_str() && tag_bytes(x.tag_str()) == tag_bytes(y.tag_str());
      let f = if e != same {
        Some(format!("iota-eq-not-network-and-tag:eq {} same {}", e, same))
      } else if e && (hash_of(&x) != hash_of(&y) || x.cmp(&y) != std::cmp::Ordering::Equal) {
        Some("iota-eq-ord-hash:".into())
      } else if (x.cmp(&y) == std::cmp::Ordering::Equal) != e || x.partial_cmp(&y) != Some(x.cmp(&y)) || x.cmp(&y) != y.cmp(&x).reverse() || (x < y) != (x.cmp(&y) == std::cmp::Ordering::Less) {
        Some(format!("iota-eq-ord-hash:Ord / PartialOrd disagree with Eq for {} and {} (cmp {:?})", x, y, x.cmp(&y)))
      } else {
        None
      };
      with(if e { "E" } else { "N" }.into(), f)
    }
    _ => "bad-request".into(),
  }
}

fn emit_parse(out: &mut impl Write, s: &str) {
  writeln!(out, "C17 parse {} {}", hex(s.as_bytes()), hex(s.to_lowercase().as_bytes())).unwrap();
  if s.is_ascii() {
    writeln!(out, "C17 fromcore {}", hex(s.as_bytes())).unwrap();
  }
}

pub fn gen(thorough: bool, seed: u64, out: &mut impl Write) {
  let mut r = Rng::new(seed ^ 0xC17);
  let tag = "0xf29dd16310c2100fd1bf568b345fb1cc14d71caa3bd9b5ad735d2bd6d455ca3b";
  let zero = "0x0000000000000000000000000000000000000000000000000000000000000000";
  // methods x segment counts x network names x tag shapes x trailing parts
  let methods = ["iota", "IOTA", "Iota", "iot", "iotaa", "key", "", "io ta", "ıota", "İota"];
  let nets = ["", "iota", "IOTA", "main", "Main", "dev", "smr", "a", "0", "foobar", "foobar0", "1234567", "fo-o", "féta", "\u{212A}", "x:y", " "];
  let mut tags: Vec<String> = vec![tag.to_string(), zero.to_string(), tag.to_uppercase(), tag.replace("0x", "0X"), tag[2..].to_string()];
  for l in [62usize, 63, 64, 65, 66, 67, 68] {
    tags.push(format!("0x{}", "a".repeat(l - 2)));
  }
  tags.push(format!("0x{}g", &tag[2..65]));
  tags.push(format!("0x{}:", &tag[2..65]));
  tags.push(format!("0x{}%41", &tag[2..63]));
  tags.push("0x".to_string());
  tags.push("".to_string());
  let tails = ["", "/", "/path", "?q=1", "#frag", "/p?q#f", "\n", " ", ":", "?", "#"];
  for m in methods {
    for t in &tags {
      for tail in tails {
        emit_parse(out, &format!("did:{}:{}{}", m, t, tail));
        if m == "iota" || m == "IOTA" {
          for n in nets {
            emit_parse(out, &format!("did:{}:{}:{}{}", m, n, t, tail));
          }
        }
      }
    }
  }
  for pre in ["", " ", "\t", "did", "DID:iota:", "Did:Iota:main:", "did::", "did:iota::", "did:iota:main:test:"] {
    emit_parse(out, &format!("{}{}", pre, tag));
    emit_parse(out, &format!("{}did:iota:{}", pre, tag));
  }
  // exhaustive short network names over a small alphabet
  // networks that are prefixes / extensions / anagrams of the default network
  for n in ["i", "io", "iot", "iota", "iotaa", "iotab", "ota", "iota0", "I", "IO", "Iot", "o", "t", "a", "iot4", "oi", "atoi"] {
    writeln!(out, "C17 net {}", hex(n.as_bytes())).unwrap();
    emit_parse(out, &format!("did:iota:{}:{}", n, tag));
    emit_parse(out, &format!("did:iota:{}:{}", n, zero));
    if NetworkName::try_from(n.to_string()).is_ok() {
      writeln!(out, "C17 new {} {}", hex(&[7u8; 32]), hex(n.as_bytes())).unwrap();
    }
  }
  // valid names with white space around or inside them (a name is used verbatim; nothing is trimmed)
  for n in [" dev", "dev ", " dev ", "smr\n", "\tsmr", "\u{a0}dev", "de v", " ", "  ", "\n", "iota ", " iota", "a\r", "\u{2003}a", "a\u{feff}"] {
    writeln!(out, "C17 net {}", hex(n.as_bytes())).unwrap();
    emit_parse(out, &format!("did:iota:{}:{}", n, tag));
  }
  // network names that contain the tag prefix "0x", or look like (part of) a tag
  for n in ["0x", "a0x", "0xa", "10x2", "ab0xcd", "0x0x", "x0", "0", "00", "0xf29d", "f29dd1", "0X"] {
    writeln!(out, "C17 net {}", hex(n.as_bytes())).unwrap();
    emit_parse(out, &format!("did:iota:{}:{}", n, tag));
    emit_parse(out, &format!("did:iota:{}:{}", n, zero));
    if NetworkName::try_from(n.to_string()).is_ok() {
      writeln!(out, "C17 new {} {}", hex(&[7u8; 32]), hex(n.as_bytes())).unwrap();
      writeln!(out, "C17 new {} {}", hex(&[0u8; 32]), hex(n.as_bytes())).unwrap();
    }
  }
  let alpha = ["a", "z", "0", "9", "A", "-", "é", ":", "", "x"];
  for a in alpha {
    for b in alpha {
      for c in alpha {
        let n = format!("{}{}{}", a, b, c);
        writeln!(out, "C17 net {}", hex(n.as_bytes())).unwrap();
        emit_parse(out, &format!("did:iota:{}:{}", n, tag));
      }
    }
  }
  for n in ["abcdef", "abcdefg", "abc def", "ABCDEF", "123456", "1234567", "iota", "ıota"] {
    writeln!(out, "C17 net {}", hex(n.as_bytes())).unwrap();
  }
  // new(): random tags x valid and invalid network names
  let netnames = ["iota", "main", "a", "0", "zz9", "foobar", "smr", "rms", "", "Main", "foobar0", "fo-o", "0x", "a0xb"];
  let n = if thorough { 20_000 } else { 1_500 };
  for i in 0..n {
    let b = match i % 5 {
      0 => vec![0u8; 32],
      1 => vec![0xffu8; 32],
      _ => r.bytes(32),
    };
    let net = netnames[(i as usize) % netnames.len()];
    writeln!(out, "C17 new {} {}", hex(&b), hex(net.as_bytes())).unwrap();
  }
  // random valid strings with random case, and equality on pairs
  let mut valid: Vec<String> = vec![];
  for _ in 0..(if thorough { 20_000 } else { 2_000 }) {
    let b = if r.chance(1, 4) { vec![0u8; 32] } else if r.chance(1, 3) { let mut x = vec![0u8; 32]; x[31] = r.below(3) as u8; x } else { r.bytes(32) };
    let net = *r.pick(&["", "iota", "main", "a", "dev", "0x", "c0x1"]);
    let t: String = b.iter().map(|x| format!("{:02x}", x)).collect();
    let mut s = if net.is_empty() { format!("did:iota:0x{}", t) } else { format!("did:iota:{}:0x{}", net, t) };
    if r.chance(1, 2) {
      s = s.chars().map(|c| if r.chance(1, 3) { c.to_ascii_uppercase() } else { c }).collect();
    }
    emit_parse(out, &s);
    if valid.len() < 300 {
      valid.push(s);
    }
  }
  for i in 0..valid.len() {
    let j = r.below(valid.len() as u64) as usize;
    for (a, b) in [(&valid[i], &valid[j]), (&valid[i], &valid[i])] {
      writeln!(out, "C17 eq {} {} {} {}", hex(a.as_bytes()), hex(a.to_lowercase().as_bytes()), hex(b.as_bytes()), hex(b.to_lowercase().as_bytes())).unwrap();
    }
  }
  let a = format!("did:iota:{}", tag);
  let b = format!("did:iota:iota:{}", tag);
  let c = format!("DID:IOTA:IOTA:{}", tag.to_uppercase().replace("0X", "0x"));
  for (x, y) in [(&a, &b), (&a, &c), (&b, &c)] {
    writeln!(out, "C17 eq {} {} {} {}", hex(x.as_bytes()), hex(x.to_lowercase().as_bytes()), hex(y.as_bytes()), hex(y.to_lowercase().as_bytes())).unwrap();
  }
}
