import IdModel.Time.Model
/-! Calendar lemmas for C13 (core Lean only: `omega` + finite tables by `decide +kernel`). -/
namespace IdModel.Time

theorem isLeap_iff (y : Nat) : isLeap y = true ↔ (y % 4 = 0 ∧ (y % 100 ≠ 0 ∨ y % 400 = 0)) := by
  unfold isLeap; simp

theorem yearStart_succ (y : Nat) : yearStart (y + 1) = yearStart y + yearLen (isLeap y) := by
  unfold yearLen
  by_cases h : isLeap y = true
  · rw [if_pos h]
    rw [isLeap_iff] at h
    unfold yearStart; omega
  · rw [if_neg h]
    rw [isLeap_iff] at h
    have h' : y % 4 ≠ 0 ∨ (y % 100 = 0 ∧ y % 400 ≠ 0) := by omega
    unfold yearStart
    rcases h' with h' | ⟨h1, h2⟩
    · omega
    · omega

theorem yearStart_lt_succ (y : Nat) : yearStart y < yearStart (y + 1) := by
  rw [yearStart_succ]; unfold yearLen; split <;> omega

theorem yearStart_mono {a b : Nat} (h : a ≤ b) : yearStart a ≤ yearStart b := by
  induction b with
  | zero => simp at h; subst h; exact Nat.le_refl _
  | succ b ih =>
    rcases Nat.lt_or_ge a (b + 1) with h1 | h1
    · exact Nat.le_trans (ih (by omega)) (Nat.le_of_lt (yearStart_lt_succ b))
    · have : a = b + 1 := by omega
      subst this; exact Nat.le_refl _

theorem yearStart_strictMono {a b : Nat} (h : a < b) : yearStart a < yearStart b :=
  Nat.lt_of_lt_of_le (yearStart_lt_succ a) (yearStart_mono h)

/-- the corrected estimate really is the year containing day `n` -/
theorem yearOf_spec (n : Nat) : yearStart (yearOf n) ≤ n ∧ n < yearStart (yearOf n + 1) := by
  unfold yearOf
  simp only
  split
  · rename_i h1
    refine ⟨h1, ?_⟩
    unfold yearStart at *; omega
  · rename_i h1
    split
    · rename_i h2
      exact ⟨h2, by omega⟩
    · rename_i h2
      have hpos : 400 * (n + 1) / 146097 ≥ 1 := by
        rcases Nat.eq_zero_or_pos (400 * (n + 1) / 146097) with h0 | h0
        · rw [h0] at h2; simp [yearStart] at h2
        · exact h0
      have e : 400 * (n + 1) / 146097 - 1 + 1 = 400 * (n + 1) / 146097 := by omega
      rw [e]
      refine ⟨?_, by omega⟩
      unfold yearStart at *; omega

/-- uniqueness: the year is determined by the day -/
theorem yearOf_unique (n y : Nat) (h1 : yearStart y ≤ n) (h2 : n < yearStart (y + 1)) :
    yearOf n = y := by
  obtain ⟨s1, s2⟩ := yearOf_spec n
  rcases Nat.lt_trichotomy (yearOf n) y with h | h | h
  · have := yearStart_mono (show yearOf n + 1 ≤ y by omega); omega
  · exact h
  · have := yearStart_mono (show y + 1 ≤ yearOf n by omega); omega

theorem yearOf_mono {a b : Nat} (h : a ≤ b) : yearOf a ≤ yearOf b := by
  obtain ⟨a1, a2⟩ := yearOf_spec a
  obtain ⟨b1, b2⟩ := yearOf_spec b
  rcases Nat.lt_or_ge (yearOf b) (yearOf a) with h1 | h1
  · have := yearStart_mono (show yearOf b + 1 ≤ yearOf a by omega); omega
  · exact h1

/-! ### day-of-year ↔ (month, day): complete tables for both year kinds -/

theorem monthDay_table : ∀ leap : Bool, ∀ doy : Fin 366, doy.val < yearLen leap →
    let md := monthDay leap doy.val
    1 ≤ md.1 ∧ md.1 ≤ 12 ∧ 1 ≤ md.2 ∧ md.2 ≤ daysInMonth leap md.1 ∧
      monthOffset leap md.1 + (md.2 - 1) = doy.val := by
  decide +kernel

theorem monthDay_inv_table : ∀ leap : Bool, ∀ m : Fin 13, ∀ d : Fin 32,
    1 ≤ m.val → 1 ≤ d.val → d.val ≤ daysInMonth leap m.val →
      monthOffset leap m.val + (d.val - 1) < yearLen leap ∧
      monthDay leap (monthOffset leap m.val + (d.val - 1)) = (m.val, d.val) := by
  decide +kernel

theorem monthDay_spec (leap : Bool) (doy : Nat) (h : doy < yearLen leap) :
    1 ≤ (monthDay leap doy).1 ∧ (monthDay leap doy).1 ≤ 12 ∧ 1 ≤ (monthDay leap doy).2 ∧
      (monthDay leap doy).2 ≤ daysInMonth leap (monthDay leap doy).1 ∧
      monthOffset leap (monthDay leap doy).1 + ((monthDay leap doy).2 - 1) = doy := by
  have h366 : doy < 366 := by unfold yearLen at h; split at h <;> omega
  exact monthDay_table leap ⟨doy, h366⟩ h

theorem daysInMonth_le (leap : Bool) (m : Nat) : daysInMonth leap m ≤ 31 := by
  unfold daysInMonth; split <;> (try split) <;> omega

theorem daysInMonth_pos_imp (leap : Bool) (m d : Nat) (h1 : 1 ≤ d) (h : d ≤ daysInMonth leap m) :
    1 ≤ m ∧ m ≤ 12 := by
  unfold daysInMonth at h; split at h <;> omega

theorem monthDay_inv (leap : Bool) (m d : Nat) (hd1 : 1 ≤ d) (hd : d ≤ daysInMonth leap m) :
    monthOffset leap m + (d - 1) < yearLen leap ∧
      monthDay leap (monthOffset leap m + (d - 1)) = (m, d) := by
  obtain ⟨hm1, hm2⟩ := daysInMonth_pos_imp leap m d hd1 hd
  have hd31 := daysInMonth_le leap m
  exact monthDay_inv_table leap ⟨m, by omega⟩ ⟨d, by omega⟩ hm1 hd1 hd

/-! ### the calendar bijection -/

theorem doy_lt (n : Nat) : n - yearStart (yearOf n) < yearLen (isLeap (yearOf n)) := by
  obtain ⟨h1, h2⟩ := yearOf_spec n
  rw [yearStart_succ] at h2; omega

/-- days → civil → days -/
theorem days_civil_days (n : Nat) :
    daysFromCivil (civilFromDays n).1 (civilFromDays n).2.1 (civilFromDays n).2.2 = n := by
  unfold civilFromDays daysFromCivil
  simp only
  obtain ⟨h1, _⟩ := yearOf_spec n
  have := (monthDay_spec (isLeap (yearOf n)) (n - yearStart (yearOf n)) (doy_lt n)).2.2.2.2
  omega

/-- the civil date of any day number is a valid date -/
theorem civilFromDays_valid (n : Nat) :
    validDate (civilFromDays n).1 (civilFromDays n).2.1 (civilFromDays n).2.2 = true := by
  have hs := monthDay_spec (isLeap (yearOf n)) (n - yearStart (yearOf n)) (doy_lt n)
  obtain ⟨a, b, c, d, _⟩ := hs
  show validDate (yearOf n) (monthDay (isLeap (yearOf n)) (n - yearStart (yearOf n))).1
    (monthDay (isLeap (yearOf n)) (n - yearStart (yearOf n))).2 = true
  unfold validDate
  simp only [Bool.and_eq_true, decide_eq_true_eq]
  exact ⟨⟨⟨a, b⟩, c⟩, d⟩

/-- civil → days → civil, for valid dates -/
theorem civil_days_civil (y m d : Nat) (h : validDate y m d = true) :
    civilFromDays (daysFromCivil y m d) = (y, m, d) := by
  unfold validDate at h
  simp only [Bool.and_eq_true, decide_eq_true_eq] at h
  obtain ⟨⟨⟨_, _⟩, hd1⟩, hd⟩ := h
  obtain ⟨hlt, hinv⟩ := monthDay_inv (isLeap y) m d hd1 hd
  have hy : yearOf (daysFromCivil y m d) = y := by
    apply yearOf_unique
    · unfold daysFromCivil; omega
    · rw [yearStart_succ]; unfold daysFromCivil; omega
  unfold civilFromDays
  simp only [hy]
  have : daysFromCivil y m d - yearStart y = monthOffset (isLeap y) m + (d - 1) := by
    unfold daysFromCivil; omega
  rw [this, hinv]

theorem epochDays_eq : yearStart 1970 = epochDays := by decide +kernel
theorem yearStart_10000 : yearStart 10000 = 3652425 := by decide +kernel

theorem MIN_eq : unixOf 0 1 1 0 0 0 0 = MIN := by decide +kernel
theorem MAX_eq : unixOf 9999 12 31 23 59 59 0 = MAX := by decide +kernel

end IdModel.Time
