import IdModel.Gen.C04
/-!
`DIDUrlQuery` at the level of the query STRING (`identity_document/src/utils/did_url_query.rs`): `did_str`, `fragment` and
`matches`, transliterated over byte lists.  The prefix that makes a query "a full DID URL" is regenerated
(`Gen.C04.queryPrefix`: the bytes `starts_with` tests for).  `Doc/Model.lean` keeps the abstract `Query` (optional DID,
optional fragment); the theorems in `Props/C04.lean` connect the two: the three string forms a caller can pass (the string
form of a DID URL, `#fragment`, the bare fragment) denote the abstract queries the resolution theorems are about.
Import-free apart from the regenerated constants; executable.
-/
namespace IdModel.Doc.QueryStr

def cHash : Nat := 35
def cSlash : Nat := 47
def cQmark : Nat := 63

/-- `query.starts_with(<prefix>)` -/
def isFull (q : List Nat) : Bool := Gen.C04.queryPrefix.isPrefixOf q

/-- `str::find(c)`: index of the first occurrence -/
def find (c : Nat) : List Nat → Option Nat
  | [] => none
  | x :: r => if x == c then some 0 else (find c r).map (· + 1)

/-- `str::rfind(c)`: index of the last occurrence -/
def rfind (c : Nat) : List Nat → Option Nat
  | [] => none
  | x :: r =>
    match rfind c r with
    | some i => some (i + 1)
    | none => if x == c then some 0 else none

/-- `did_str` -/
def didStr (q : List Nat) : Option (List Nat) :=
  if !isFull q then none else
  let e0 := q.length
  let e1 := min e0 ((find cQmark q).getD e0)
  let e2 := min e1 ((find cSlash q).getD e1)
  let e3 := min e2 ((find cHash q).getD e2)
  some (q.take e3)

/-- `fragment` -/
def fragment (q : List Nat) : Option (List Nat) :=
  let f : Option (List Nat) :=
    if isFull q then (rfind cHash q).map (fun i => q.drop (i + 1))
    else match rfind cHash q with
      | some i => some (q.drop (i + 1))
      | none => some q
  f.filter (fun x => !x.isEmpty)

/-- `matches` against a DID URL given by the string of its DID and its fragment -/
def matchesStr (q : List Nat) (did : List Nat) (frag : Option (List Nat)) : Bool :=
  (match didStr q with
   | some d => d == did
   | none => true) &&
  (match fragment q, frag with
   | some a, some b => a == b
   | _, _ => false)

end IdModel.Doc.QueryStr
