//! C12 — StatusList2021 against the Lean model `IdModel.Status`.
use crate::rng::{hex, unhex, Rng};
use identity_core::common::Url;
use identity_core::convert::{Base, BaseEncoding};
use identity_credential::credential::{Credential, CredentialBuilder, Issuer, Status, Subject};
use identity_credential::revocation::status_list_2021::{
  CredentialStatus, StatusList2021, StatusList2021Credential, StatusList2021CredentialBuilder, StatusList2021Entry,
  StatusPurpose,
};
use identity_credential::validator::{JwtCredentialValidatorUtils, JwtValidationError, StatusCheck};
use std::io::Write;

/// a list with arbitrary byte content, through the public decoder
fn list_from_bytes(b: &[u8]) -> Option<StatusList2021> {
  let mut enc = flate2::write::GzEncoder::new(vec![], flate2::Compression::best());
  enc.write_all(b).ok()?;
  let z = enc.finish().ok()?;
  StatusList2021::try_from_encoded_str(&BaseEncoding::encode(&z, Base::Base64)).ok()
}

fn split<'a>(args: &'a [&'a str]) -> &'a [&'a str] {
  match args.iter().position(|t| *t == "|") {
    Some(i) => &args[i + 1..],
    None => &[],
  }
}

fn run_ops(mut l: StatusList2021, ops: &[&str]) -> String {
  // shadow bit vector = the abstract specification (implementation-side oracle)
  let n = l.len();
  let small = n <= 4096;
  let mut shadow: Vec<bool> = if small { (0..n).map(|i| l.get(i).unwrap_or(false)).collect() } else { vec![] };
  let mut sparse: std::collections::BTreeMap<usize, bool> = Default::default();
  let mut out = vec![];
  let mut fail: Option<String> = None;
  for op in ops {
    let p: Vec<&str> = op.split(':').collect();
    match p[0] {
      "s" => {
        let (Some(i), Some(v)) = (p.get(1).and_then(|x| x.parse::<usize>().ok()), p.get(2).map(|x| *x == "1")) else {
          return "bad-request".into();
        };
        // neighbours in the same byte before the write (for big lists)
        let base = i / 8 * 8;
        let top = base.saturating_add(8);
        let before: Vec<Option<bool>> = (base..top).map(|j| l.get(j).ok()).collect();
        match l.set(i, v) {
          Ok(()) => {
            out.push("ok".to_string());
            if i >= n && fail.is_none() {
              fail = Some(format!("oob-accepted:set({},{}) on len {}", i, v, n));
            }
            if small && i < n {
              shadow[i] = v;
            }
            sparse.insert(i, v);
            for (k, j) in (base..top).enumerate() {
              let now = l.get(j).ok();
              let want = if j == i { Some(v) } else { before[k] };
              if j < n && now != want && fail.is_none() {
                fail = Some(format!(
                  "write-disturbs-other-entry:set({},{}) changed entry {} from {:?} to {:?}",
                  i, v, j, before[k], now
                ));
              }
            }
          }
          Err(_) => {
            out.push("oob".to_string());
            if i < n && fail.is_none() {
              fail = Some(format!("in-range-rejected:set({},{}) on len {}", i, v, n));
            }
          }
        }
        if small && fail.is_none() {
          for j in 0..n {
            if l.get(j).ok() != Some(shadow[j]) {
              fail = Some(format!("read-not-last-write:entry {} reads {:?}, last written {}", j, l.get(j).ok(), shadow[j]));
              break;
            }
          }
        }
      }
      "g" => {
        let Some(i) = p.get(1).and_then(|x| x.parse::<usize>().ok()) else { return "bad-request".into() };
        match l.get(i) {
          Ok(b) => {
            out.push(if b { "1" } else { "0" }.to_string());
            if i >= n && fail.is_none() {
              fail = Some(format!("oob-accepted:get({}) on len {}", i, n));
            }
            if let Some(w) = sparse.get(&i) {
              if *w != b && fail.is_none() {
                fail = Some(format!("read-not-last-write:entry {} reads {}, last written {}", i, b, w));
              }
            }
          }
          Err(_) => {
            out.push("oob".to_string());
            if i < n && fail.is_none() {
              fail = Some(format!("in-range-rejected:get({}) on len {}", i, n));
            }
          }
        }
      }
      _ => return "bad-request".into(),
    }
  }
  out.push(format!("len={}", l.len()));
  // encode/decode round trip of the final list
  let enc = l.clone().into_encoded_str();
  if StatusList2021::try_from_encoded_str(&enc).ok().as_ref() != Some(&l) && fail.is_none() {
    fail = Some("encode-decode-roundtrip:final list".into());
  }
  let mut s = out.join(" ");
  if let Some(f) = fail {
    s.push_str(&format!("\t#FAIL:{}", f));
  }
  s
}

fn purpose(s: &str) -> Option<StatusPurpose> {
  match s {
    "r" => Some(StatusPurpose::Revocation),
    "s" => Some(StatusPurpose::Suspension),
    _ => None,
  }
}

fn list_credential(l: StatusList2021, p: StatusPurpose) -> StatusList2021Credential {
  let url = Url::parse("http://example.com/list").unwrap();
  StatusList2021CredentialBuilder::new(l)
    .issuer(Issuer::Url(Url::parse("http://example.com/issuer").unwrap()))
    .purpose(p)
    .subject_id(url)
    .build()
    .unwrap()
}

fn plain_credential() -> Credential {
  CredentialBuilder::default()
    .issuer(Issuer::Url(Url::parse("http://example.com/issuer").unwrap()))
    .subject(Subject::with_id(Url::parse("http://example.com/subject").unwrap()))
    .build()
    .unwrap()
}

fn run_cred(p: StatusPurpose, l: StatusList2021, ops: &[&str]) -> String {
  let n = l.len();
  let mut c = list_credential(l, p);
  let mut out = vec![];
  let mut fail: Option<String> = None;
  // entries observed set (for the one-way oracle)
  let mut seen_true: std::collections::BTreeSet<usize> = Default::default();
  for i in 0..n.min(512) {
    if matches!(c.entry(i), Ok(CredentialStatus::Revoked) | Ok(CredentialStatus::Suspended)) {
      seen_true.insert(i);
    }
  }
  for op in ops {
    let t: Vec<&str> = op.split(':').collect();
    match t[0] {
      "e" | "c" => {
        let (Some(i), Some(v)) = (t.get(1).and_then(|x| x.parse::<usize>().ok()), t.get(2).map(|x| *x == "1")) else {
          return "bad-request".into();
        };
        let r = if t[0] == "e" {
          c.update(|ml| ml.set_entry(i, v))
        } else {
          let mut cred = plain_credential();
          c.set_credential_status(&mut cred, i, v).map(|_| ())
        };
        use identity_credential::revocation::status_list_2021::StatusList2021CredentialError as E;
        use identity_credential::revocation::status_list_2021::StatusListError as LE;
        out.push(
          match r {
            Ok(()) => "ok",
            Err(E::UnreversibleRevocation) => "unrev",
            Err(E::StatusListError(LE::IndexOutOfBounds)) => "oob",
            Err(_) => "other-error",
          }
          .to_string(),
        );
        if p == StatusPurpose::Suspension && !v && i < n {
          seen_true.remove(&i);
        }
        if v && i < n {
          seen_true.insert(i);
        }
        if p == StatusPurpose::Revocation && fail.is_none() {
          for &j in &seen_true {
            if !matches!(c.entry(j), Ok(CredentialStatus::Revoked)) {
              fail = Some(format!("revocation-not-one-way:entry {} was revoked and reads {:?} after {}", j, c.entry(j), op));
              break;
            }
          }
        }
        if p == StatusPurpose::Suspension && fail.is_none() {
          for &j in &seen_true {
            if !matches!(c.entry(j), Ok(CredentialStatus::Suspended)) {
              fail = Some(format!("write-disturbs-other-entry:suspended entry {} reads {:?} after {}", j, c.entry(j), op));
              break;
            }
          }
          if !v && i < n && !matches!(c.entry(i), Ok(CredentialStatus::Valid)) {
            fail = Some(format!("suspension-not-clearable:entry {}", i));
          }
        }
      }
      "q" => {
        let Some(i) = t.get(1).and_then(|x| x.parse::<usize>().ok()) else { return "bad-request".into() };
        out.push(
          match c.entry(i) {
            Ok(CredentialStatus::Revoked) => "revoked",
            Ok(CredentialStatus::Suspended) => "suspended",
            Ok(CredentialStatus::Valid) => "valid",
            Err(_) => "oob",
          }
          .to_string(),
        );
      }
      _ => return "bad-request".into(),
    }
  }
  let mut s = out.join(" ");
  if let Some(f) = fail {
    s.push_str(&format!("\t#FAIL:{}", f));
  }
  s
}

fn run_check(a: &[&str]) -> String {
  let [sc, st, idm, pc, pe, idx, h] = a else { return "bad-request".into() };
  let sc = match *sc {
    "strict" => StatusCheck::Strict,
    "skipu" => StatusCheck::SkipUnsupported,
    "skipall" => StatusCheck::SkipAll,
    _ => return "bad-request".into(),
  };
  let (Some(pc), Some(pe), Some(idx), Some(bytes)) = (purpose(pc), purpose(pe), idx.parse::<usize>().ok(), unhex(h)) else {
    return "bad-request".into();
  };
  let Some(l) = list_from_bytes(&bytes) else { return "bad-request".into() };
  let bit = l.get(idx).ok();
  let lc = list_credential(l, pc);
  let mut cred = plain_credential();
  let list_url = if *idm == "1" { lc.id.clone().unwrap() } else { Url::parse("http://example.com/other").unwrap() };
  match *st {
    "none" => {}
    "bad" => {
      cred.credential_status = Some(Status::new(Url::parse("http://example.com/x").unwrap(), "SomethingElse".to_owned()));
    }
    _ => {
      cred.credential_status = Some(StatusList2021Entry::new(list_url, pe, idx, None).into());
    }
  }
  let r = JwtCredentialValidatorUtils::check_status_with_status_list_2021(&cred, &lc, sc);
  let obs = match &r {
    Ok(()) => "ok",
    Err(JwtValidationError::Revoked) => "revoked",
    Err(JwtValidationError::Suspended) => "suspended",
    Err(JwtValidationError::InvalidStatus(_)) => "invalid-status",
    Err(_) => "other-error",
  };
  // oracle: revoked/suspended exactly when the entry is set in a list of matching purpose and id
  let mut fail = String::new();
  if *st == "entry" && sc != StatusCheck::SkipAll {
    let matching = *idm == "1" && pc == pe;
    let want = if !matching {
      "invalid-status"
    } else {
      match (bit, pc) {
        (Some(true), StatusPurpose::Revocation) => "revoked",
        (Some(true), StatusPurpose::Suspension) => "suspended",
        (Some(false), _) => "ok",
        (None, _) => "invalid-status",
      }
    };
    if want != obs {
      fail = format!("\t#FAIL:status-report-wrong:want {} got {}", want, obs);
    }
  }
  format!("{}{}", obs, fail)
}

pub fn run(args: &[&str]) -> String {
  match args.first().copied() {
    Some("ops") => {
      let Some(b) = args.get(1).and_then(|h| unhex(h)) else { return "bad-request".into() };
      let Some(l) = list_from_bytes(&b) else { return "bad-request".into() };
      run_ops(l, split(args))
    }
    Some("new") => {
      let Some(n) = args.get(1).and_then(|x| x.parse::<usize>().ok()) else { return "bad-request".into() };
      match StatusList2021::new(n) {
        Ok(l) => {
          let f = if l.len() < n || l.len() >= n + 8 { "\t#FAIL:new-wrong-size:" } else { "" };
          format!("ok:{}{}", l.len(), f)
        }
        Err(_) => "size".into(),
      }
    }
    Some("big") => {
      let Some(n) = args.get(1).and_then(|x| x.parse::<usize>().ok()) else { return "bad-request".into() };
      match StatusList2021::new(n) {
        Ok(l) => run_ops(l, split(args)),
        Err(_) => "size".into(),
      }
    }
    Some("cred") => {
      let (Some(p), Some(b)) = (args.get(1).and_then(|x| purpose(x)), args.get(2).and_then(|h| unhex(h))) else {
        return "bad-request".into();
      };
      let Some(l) = list_from_bytes(&b) else { return "bad-request".into() };
      run_cred(p, l, split(args))
    }
    Some("check") => run_check(&args[1..]),
    Some("roundtrip") => {
      let Some(b) = args.get(1).and_then(|h| unhex(h)) else { return "bad-request".into() };
      let Some(l) = list_from_bytes(&b) else { return "bad-request".into() };
      let enc = l.clone().into_encoded_str();
      match StatusList2021::try_from_encoded_str(&enc) {
        Ok(l2) if l2 == l && l.len() == b.len() * 8 => "ok".into(),
        _ => "ok\t#FAIL:encode-decode-roundtrip:".into(),
      }
    }
    // a large list filled pseudo-randomly at a given density (poorly compressible), written through `set`, encoded,
    // decoded and compared: entry count, equality, and every entry read back
    Some("dense") => {
      let (Some(n), Some(sd), Some(den)) = (args.get(1).and_then(|x| x.parse::<usize>().ok()), args.get(2).and_then(|x| x.parse::<u64>().ok()), args.get(3).and_then(|x| x.parse::<u64>().ok())) else {
        return "bad-request".into();
      };
      let Ok(mut l) = StatusList2021::new(n) else { return "size".into() };
      let mut r = Rng::new(sd);
      let mut want = vec![false; l.len()];
      for (i, w) in want.iter_mut().enumerate() {
        if r.below(256) < den {
          *w = true;
          if l.set(i, true).is_err() {
            return "ok\t#FAIL:encode-decode-roundtrip:set refused an index below len".into();
          }
        }
      }
      let enc = l.clone().into_encoded_str();
      match StatusList2021::try_from_encoded_str(&enc) {
        Ok(l2) => {
          if l2.len() != want.len() {
            return format!("ok\t#FAIL:encode-decode-roundtrip:a list of {} entries decodes from its own encoding with {} entries", want.len(), l2.len());
          }
          if l2 != l {
            return "ok\t#FAIL:encode-decode-roundtrip:the decoded list differs".into();
          }
          for (i, w) in want.iter().enumerate() {
            if l2.get(i).ok() != Some(*w) {
              return format!("ok\t#FAIL:encode-decode-roundtrip:entry {} reads {:?} after the round trip, written {}", i, l2.get(i).ok(), w);
            }
          }
          "ok".into()
        }
        Err(_) => "ok\t#FAIL:encode-decode-roundtrip:the list's own encoding does not decode".into(),
      }
    }
    _ => "bad-request".into(),
  }
}

pub fn gen(thorough: bool, seed: u64, out: &mut impl Write) {
  let mut r = Rng::new(seed ^ 0xC12);
  // (2) exhaustive: every (byte value, offset, written value), the byte placed among random neighbours
  for b in 0..=255u8 {
    for off in 0..8usize {
      for v in 0..2 {
        let pos = (b as usize + off) % 3;
        let mut bytes = r.bytes(3);
        bytes[pos] = b;
        let i = pos * 8 + off;
        let reads: Vec<String> = (0..24).map(|j| format!("g:{}", j)).collect();
        writeln!(out, "C12 ops {} | s:{}:{} {}", hex(&bytes), i, v, reads.join(" ")).unwrap();
      }
    }
  }
  // boundary indices
  for n in [1usize, 2, 3] {
    let bytes = r.bytes(n);
    for i in [0, 7, 8, n * 8 - 1, n * 8, n * 8 + 1, n * 8 + 7, n * 8 + 8, usize::MAX / 8, usize::MAX] {
      writeln!(out, "C12 ops {} | g:{} s:{}:1 g:{} s:{}:0 g:{}", hex(&bytes), i, i, i, i, i).unwrap();
    }
  }
  writeln!(out, "C12 ops - | g:0 s:0:1").unwrap();
  // (3) random write sequences on small lists
  let nseq = if thorough { 20_000 } else { 1_500 };
  for _ in 0..nseq {
    let n = 1 + r.below(6) as usize;
    let bytes = if r.chance(1, 3) { vec![0u8; n] } else { r.bytes(n) };
    let len = 1 + r.below(if thorough { 200 } else { 40 });
    let ops: Vec<String> = (0..len)
      .map(|_| {
        let i = r.below((n * 8 + 3) as u64);
        if r.chance(2, 3) {
          format!("s:{}:{}", i, r.below(2))
        } else {
          format!("g:{}", i)
        }
      })
      .collect();
    writeln!(out, "C12 ops {} | {}", hex(&bytes), ops.join(" ")).unwrap();
  }
  // new(): sizes around the minimum and around multiples of 8
  for n in [0usize, 1, 100, 131071, 131072, 131073, 131079, 131080, 131081, 200000, 262143, 262144, 262145] {
    writeln!(out, "C12 new {}", n).unwrap();
  }
  // full-size lists (size classes: minimum, non-multiple of 8, larger)
  let sizes: &[usize] = if thorough { &[131072, 131073, 131079, 262144, 1 << 20] } else { &[131072, 131077] };
  for &n in sizes {
    let cnt = if thorough { 40 } else { 6 };
    for _ in 0..cnt {
      let mut ops = vec![];
      let base = r.below((n / 8) as u64) as usize * 8;
      for _ in 0..(if thorough { 60 } else { 20 }) {
        let i = if r.chance(1, 6) { n + r.below(16) as usize } else if r.chance(1, 2) { base + r.below(16) as usize } else { r.below(n as u64) as usize };
        if r.chance(2, 3) {
          ops.push(format!("s:{}:{}", i, r.below(2)));
        } else {
          ops.push(format!("g:{}", i));
        }
      }
      ops.push(format!("g:{}", n - 1));
      writeln!(out, "C12 big {} | {}", n, ops.join(" ")).unwrap();
    }
  }
  // encode/decode round trips
  for _ in 0..(if thorough { 2000 } else { 200 }) {
    let n = r.below(64) as usize;
    writeln!(out, "C12 roundtrip {}", hex(&r.bytes(n))).unwrap();
  }
  // credential-level histories, both purposes
  let ncred = if thorough { 4000 } else { 400 };
  for k in 0..ncred {
    let p = if k % 2 == 0 { "r" } else { "s" };
    let n = 1 + r.below(3) as usize;
    let bytes = if r.chance(1, 2) { vec![0u8; n] } else { r.bytes(n) };
    let len = 1 + r.below(12);
    let ops: Vec<String> = (0..len)
      .map(|_| {
        let i = r.below((n * 8 + 2) as u64);
        match r.below(4) {
          0 => format!("q:{}", i),
          1 => format!("c:{}:{}", i, r.below(2)),
          _ => format!("e:{}:{}", i, r.below(2)),
        }
      })
      .collect();
    let qs: Vec<String> = (0..n * 8).map(|j| format!("q:{}", j)).collect();
    writeln!(out, "C12 cred {} {} | {} {}", p, hex(&bytes), ops.join(" "), qs.join(" ")).unwrap();
  }
  // validator decision table
  for sc in ["strict", "skipu", "skipall"] {
    for st in ["none", "bad", "entry"] {
      for idm in ["0", "1"] {
        for pc in ["r", "s"] {
          for pe in ["r", "s"] {
            for idx in [0usize, 1, 7, 8, 15, 16, 17] {
              writeln!(out, "C12 check {} {} {} {} {} {} a55a", sc, st, idm, pc, pe, idx).unwrap();
            }
          }
        }
      }
    }
  }
  // large dense lists (the encoder's buffers are exceeded only by big, poorly compressible lists)
  let dense: &[(usize, u64)] = if thorough { &[(131072, 85), (131072, 128), (262144, 85), (524288, 85), (1 << 20, 40), (1 << 20, 85), (1 << 20, 128), (1 << 20, 250), (1 << 21, 85), (1 << 22, 128)] } else { &[(131072, 128), (524288, 85), (1 << 20, 85), (1 << 20, 128)] };
  for (n, den) in dense {
    writeln!(out, "C12 dense {} {} {}", n, r.below(1 << 30), den).unwrap();
  }
  // very large sparse lists, at and just beyond power-of-two byte sizes (limits / buffer sizes of the decoder) and with
  // entry counts that are no multiple of 8
  let huge: &[(usize, u64)] = if thorough { &[(8388608, 2), (8388616, 2), (8388609, 1), (1 << 24, 1), ((1 << 24) + 24, 1), (1 << 25, 1), ((1 << 26) + 8, 1)] } else { &[(8388616, 2), ((1 << 24) + 24, 1), (131073, 9)] };
  for (n, den) in huge {
    writeln!(out, "C12 dense {} {} {}", n, r.below(1 << 30), den).unwrap();
  }
}
