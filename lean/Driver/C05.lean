import IdModel.Panic.Model
import IdModel.Panic.Linked
import IdModel.Did.Model
import IdModel.IotaDid.Model
import IdModel.Time.Model
import Driver.Util
/-! Line-protocol handler for C05: outcome class of the modelled entry points; `u` for the others. See harness/src/c05.rs. -/
namespace Driver.C05
open IdModel IdModel.Panic

def cls {ε α : Type} : Outcome ε α → String
  | .ok _ => "ok" | .err _ => "err" | .panic _ => "panic"

def modelled (name : String) (bs aux : List Nat) : Option String :=
  if name == "did" then some (cls (Did.parseDid bs))
  else if name == "url" then some (cls (Did.parseUrl bs))
  else if name == "iota" then some (cls (IotaDid.parseLower aux))
  else if name == "ts" then some (cls (Time.parse bs))
  else if name == "unpack" then some (match unframeP bs with | .ok _ => "framed" | .err _ => "err" | .panic _ => "panic")
  else if name == "mdigest" then some (match unpackDigest bs with | .ok (_, x) => s!"ok:{x}" | .err _ => "err" | .panic _ => "panic")
  else if name == "integrity" then
    some (match parseIntegrity bs with
      | .ok _ =>
        -- the accessors that follow an accepted value
        if (alg bs).isPanic || (digest bs).isPanic || (digestBytes bs).isPanic then "panic" else "ok"
      | .err _ => "err"
      | .panic _ => "panic")
  else none

/-! `linked` / `linkednew`: the request is an ASCII spec (see harness/src/c05.rs `linked_spec`):
`<types>|<endpoint>` with type codes `L` `V` `X` `Y`, endpoint `o<u>` (one), `s<u>*` (set), `m<k><u>*;<k><u>*…` (map, key codes
`o` = origins, `x`, `y`), URL codes `a b p q f h d`. -/
open Panic.Linked in
def urlOf (c : Char) : Option U :=
  match c with
  | 'a' => some ⟨true, true, 1⟩    -- https://a.example
  | 'b' => some ⟨true, true, 2⟩    -- https://b.example/
  | 'p' => some ⟨true, false, 3⟩   -- https://a.example/p
  | 'q' => some ⟨true, false, 4⟩   -- https://a.example?q
  | 'f' => some ⟨true, false, 5⟩   -- https://a.example#f
  | 'h' => some ⟨false, true, 6⟩   -- http://a.example
  | 'd' => some ⟨false, false, 7⟩  -- did:ex:x
  | _ => none

def typeOf (c : Char) : Option String :=
  match c with
  | 'L' => some "LinkedDomains" | 'V' => some "LinkedVerifiablePresentation" | 'X' => some "X" | 'Y' => some "linkeddomains"
  | _ => none

def keyOf (c : Char) : Option String :=
  match c with
  | 'o' => some "origins" | 'x' => some "x" | 'y' => some "Origins" | _ => none

open Panic.Linked in
def endpointOf (cs : List Char) : Option Endpoint :=
  match cs with
  | ['o', u] => (urlOf u).map .one
  | 's' :: us => (us.mapM urlOf).map .set
  | 'm' :: rest =>
    let groups := ((String.ofList rest).splitOn ";").filter (· != "")
    (groups.mapM fun (g : String) =>
      match g.toList with
      | k :: us => do
        let key ← keyOf k
        let l ← us.mapM urlOf
        pure (key, l)
      | [] => none).map .map
  | _ => none

open Panic.Linked in
def linked (name : String) (bs : List Nat) : Option String :=
  let spec := String.ofList (bs.map Char.ofNat)
  if name == "linked" then
    match spec.splitOn "|" with
    | [ts, ep] => do
      let types ← ts.toList.mapM typeOf
      let e ← endpointOf ep.toList
      pure (reply { types := types, ep := e })
    | _ => none
  else
    match spec.toList with
    | 'L' :: us => (us.mapM urlOf).map (replyNew true)
    | 'V' :: us => (us.mapM urlOf).map (replyNew false)
    | _ => none

def handle : List String → String
  | [name, h] =>
    match unhex h with
    | some bs =>
      if name == "linked" || name == "linkednew" then (linked name bs).getD "bad-request"
      else (modelled name bs []).getD "u"
    | none => "bad-request"
  | [name, h, a] =>
    match unhex h, unhex a with
    | some bs, some aux => (modelled name bs aux).getD "u"
    | _, _ => "bad-request"
  | _ => "bad-request"

end Driver.C05
