/-!
Base64url without padding, canonical trailing bits required — what
`multibase::Base::Base64Url` → `data-encoding::BASE64URL_NOPAD` does (RFC 4648 §5, no `=`).
Bytes and characters are `Nat`.  Import-free, executable.
-/
namespace IdModel.B64

/-- sextet → character -/
def charOf (v : Nat) : Nat :=
  if v < 26 then 65 + v else if v < 52 then 97 + (v - 26) else if v < 62 then 48 + (v - 52)
  else if v = 62 then 45 else 95

/-- character → sextet -/
def valOf (c : Nat) : Option Nat :=
  if 65 ≤ c ∧ c ≤ 90 then some (c - 65)
  else if 97 ≤ c ∧ c ≤ 122 then some (c - 97 + 26)
  else if 48 ≤ c ∧ c ≤ 57 then some (c - 48 + 52)
  else if c = 45 then some 62
  else if c = 95 then some 63
  else none

def enc : List Nat → List Nat
  | [] => []
  | [a] => [charOf (a / 4), charOf (a % 4 * 16)]
  | [a, b] => [charOf (a / 4), charOf (a % 4 * 16 + b / 16), charOf (b % 16 * 4)]
  | a :: b :: c :: r =>
    charOf (a / 4) :: charOf (a % 4 * 16 + b / 16) :: charOf (b % 16 * 4 + c / 64) :: charOf (c % 64) :: enc r

def dec : List Nat → Option (List Nat)
  | [] => some []
  | [_] => none
  | [w, x] =>
    match valOf w, valOf x with
    | some p, some q => if q % 16 = 0 then some [p * 4 + q / 16] else none
    | _, _ => none
  | [w, x, y] =>
    match valOf w, valOf x, valOf y with
    | some p, some q, some r =>
      if r % 4 = 0 then some [p * 4 + q / 16, q % 16 * 16 + r / 4] else none
    | _, _, _ => none
  | w :: x :: y :: z :: rest =>
    match valOf w, valOf x, valOf y, valOf z, dec rest with
    | some p, some q, some r, some s, some t =>
      some ((p * 4 + q / 16) :: (q % 16 * 16 + r / 4) :: (r % 4 * 64 + s) :: t)
    | _, _, _, _, _ => none

end IdModel.B64
