//! C01 — JWS decoding / verification against the Lean model `IdModel.Jose.Jws`.
use crate::jose_util::*;
use crate::rng::{hex, unhex, Rng};
use identity_jose::jwk::Jwk;
use identity_jose::jws::{Decoder, JwsHeader, JwsValidationItem, JwsVerifierFn, SignatureVerificationError, SignatureVerificationErrorKind, VerificationInput};
use std::cell::RefCell;
use std::io::Write;

/// strict base64url without padding (independent of the library), canonical trailing bits
pub fn b64_strict(s: &[u8]) -> Option<Vec<u8>> {
  fn val(c: u8) -> Option<u32> {
    match c {
      b'A'..=b'Z' => Some((c - b'A') as u32),
      b'a'..=b'z' => Some((c - b'a') as u32 + 26),
      b'0'..=b'9' => Some((c - b'0') as u32 + 52),
      b'-' => Some(62),
      b'_' => Some(63),
      _ => None,
    }
  }
  let mut out = vec![];
  let mut i = 0;
  while i + 4 <= s.len() {
    let (a, b, c, d) = (val(s[i])?, val(s[i + 1])?, val(s[i + 2])?, val(s[i + 3])?);
    out.push((a << 2 | b >> 4) as u8);
    out.push(((b & 15) << 4 | c >> 2) as u8);
    out.push(((c & 3) << 6 | d) as u8);
    i += 4;
  }
  match s.len() - i {
    0 => {}
    2 => {
      let (a, b) = (val(s[i])?, val(s[i + 1])?);
      if b & 15 != 0 {
        return None;
      }
      out.push((a << 2 | b >> 4) as u8);
    }
    3 => {
      let (a, b, c) = (val(s[i])?, val(s[i + 1])?, val(s[i + 2])?);
      if c & 3 != 0 {
        return None;
      }
      out.push((a << 2 | b >> 4) as u8);
      out.push(((b & 15) << 4 | c >> 2) as u8);
    }
    _ => return None,
  }
  Some(out)
}

pub fn toy_mac(k: u64, m: &[u8]) -> Vec<u8> {
  let s1: u64 = m.iter().map(|b| *b as u64).sum();
  let s2: u64 = m.iter().enumerate().map(|(i, b)| (i as u64 + 1) * (*b as u64)).sum();
  vec![(k % 256) as u8, (s1 % 256) as u8, (s2 % 256) as u8, (m.len() % 256) as u8]
}

/// what the library's serde layer makes of header JSON bytes, as a header spec (for the model's parse table)
pub fn spec_of_json(bytes: &[u8]) -> Option<String> {
  let h: JwsHeader = serde_json::from_slice(bytes).ok()?;
  let alg = h.alg().map(|a| a.name().to_string()).unwrap_or("-".into());
  let b64 = match h.b64() {
    None => "-",
    Some(true) => "t",
    Some(false) => "f",
  };
  // names that the line protocol cannot carry are replaced by an injective stand-in (`u<hex>`):
  // the policy only compares names
  let san = |n: &str| -> String {
    if !n.is_empty() && n.chars().all(|ch| ch.is_ascii_alphanumeric() || "-_.#+*".contains(ch)) {
      n.to_string()
    } else {
      format!("u{}", hex(n.as_bytes()).replace('-', "empty"))
    }
  };
  let crit = match h.crit() {
    None => "-".to_string(),
    Some(c) if c.is_empty() => "=".to_string(),
    Some(c) => c.iter().map(|x| san(x)).collect::<Vec<_>>().join(","),
  };
  let mut fields = vec![];
  if h.jku().is_some() { fields.push("jku"); }
  if h.jwk().is_some() { fields.push("jwk"); }
  if h.kid().is_some() { fields.push("kid"); }
  if h.x5u().is_some() { fields.push("x5u"); }
  if h.x5c().is_some() { fields.push("x5c"); }
  if h.x5t().is_some() { fields.push("x5t"); }
  if h.x5t_s256().is_some() { fields.push("x5t_s256"); }
  if h.typ().is_some() { fields.push("typ"); }
  if h.cty().is_some() { fields.push("cty"); }
  if h.url().is_some() { fields.push("url"); }
  if h.nonce().is_some() { fields.push("nonce"); }
  let custom: Vec<String> = h.custom().map(|m| m.keys().map(|k| san(k)).collect()).unwrap_or_default();
  Some(format!(
    "H:{}:{}:{}:{}:{}",
    alg,
    b64,
    crit,
    if fields.is_empty() { "-".to_string() } else { fields.join(",") },
    if custom.is_empty() { "-".to_string() } else { custom.join(",") }
  ))
}

struct Rec {
  alg: String,
  si: Vec<u8>,
  sig: Vec<u8>,
}

fn key_of(t: &str) -> Option<(u64, Jwk)> {
  let p: Vec<&str> = t.split(':').collect();
  if p.len() != 3 || p[0] != "k" {
    return None;
  }
  let id: u64 = p[1].parse().ok()?;
  let mut k = sample_jwk();
  if p[2] != "-" {
    k.set_alg(p[2]);
  }
  Some((id, k))
}

/// decode result -> observable, with the implementation-side oracle
fn show_item(item: JwsValidationItem<'_>, kid: u64, key: &Jwk, recv_prot: Option<&[u8]>, recv_payload: &[u8], recv_sig: &[u8]) -> String {
  let si = item.signing_input().to_vec();
  let sig = item.decoded_signature().to_vec();
  let claims = item.claims().to_vec();
  let alg = item.alg().map(|a| a.name().to_string()).unwrap_or("-".into());
  let b64 = item.protected_header().and_then(|h| h.b64()).unwrap_or(true);
  let prot_alg = item.protected_header().and_then(|h| h.alg()).map(|a| a.name().to_string());
  let mut fail: Option<String> = None;
  // oracle on the decoded item: exactly the received bytes
  let mut want_si = recv_prot.map(|p| p.to_vec()).unwrap_or_default();
  want_si.push(b'.');
  want_si.extend_from_slice(recv_payload);
  if si != want_si {
    fail = Some("signing-input-not-received-bytes:".into());
  }
  if Some(&sig) != b64_strict(recv_sig).as_ref() {
    fail = fail.or(Some("signature-not-decoded-segment:".into()));
  }
  let want_claims = if b64 { b64_strict(recv_payload) } else { Some(recv_payload.to_vec()) };
  if Some(&claims) != want_claims.as_ref() {
    fail = fail.or(Some("claims-not-signed-payload:".into()));
  }
  let rec: RefCell<Option<Rec>> = RefCell::new(None);
  let verifier = JwsVerifierFn::from(|input: VerificationInput, _key: &Jwk| {
    *rec.borrow_mut() = Some(Rec { alg: input.alg.name().to_string(), si: input.signing_input.to_vec(), sig: input.decoded_signature.to_vec() });
    if input.decoded_signature.as_ref() == toy_mac(kid, &input.signing_input).as_slice() {
      Ok(())
    } else {
      Err(SignatureVerificationError::new(SignatureVerificationErrorKind::InvalidSignature))
    }
  });
  let v = match item.verify(&verifier, key) {
    Ok(d) => {
      if d.claims.as_ref() != claims.as_slice() {
        "verified-other-claims".to_string()
      } else {
        "verified".to_string()
      }
    }
    Err(e) => match e {
      identity_jose::error::Error::MissingHeader(_) => "E:missing-protected".into(),
      identity_jose::error::Error::ProtectedHeaderWithoutAlg => "E:no-alg".into(),
      identity_jose::error::Error::InvalidClaim(_) => "E:alg-mismatch".into(),
      identity_jose::error::Error::SignatureVerificationError(_) => "E:signature".into(),
      _ => "E:other".into(),
    },
  };
  let r = rec.borrow();
  if let Some(r) = r.as_ref() {
    if r.si != want_si || Some(&r.sig) != b64_strict(recv_sig).as_ref() {
      fail = fail.or(Some("verifier-input-not-received-bytes:".into()));
    }
    if Some(&r.alg) != prot_alg.as_ref() {
      fail = fail.or(Some("verifier-alg-not-from-protected-header:".into()));
    }
  }
  if v.starts_with("verified") {
    let key_alg_ok = key.alg().map(|a| Some(a.to_string()) == prot_alg).unwrap_or(true);
    if r.is_none() || prot_alg.is_none() || !key_alg_ok || v != "verified" {
      fail = fail.or(Some(format!("verified-without-check:recorded {} prot_alg {:?} key_alg_ok {}", r.is_some(), prot_alg, key_alg_ok)));
    }
  }
  let obs = format!("ok:{}:{}:{}:{}:{}", hex(&si), hex(&sig), hex(&claims), alg, v);
  match fail {
    Some(f) => format!("{}\t#FAIL:{}", obs, f),
    None => obs,
  }
}

fn opt_bytes(t: &str) -> Option<Option<Vec<u8>>> {
  if t == "~" {
    Some(None)
  } else {
    unhex(t).map(Some)
  }
}

struct SigM {
  prot: Option<Vec<u8>>,
  header: Option<HSpec>,
  sig: Vec<u8>,
}
fn parse_sig(t: &str) -> Option<SigM> {
  let p: Vec<&str> = t.split('/').collect();
  if p.len() != 4 || p[0] != "S" {
    return None;
  }
  Some(SigM { prot: opt_bytes(p[1])?, header: parse_hspec(p[2])?, sig: unhex(p[3])? })
}
fn sig_json(m: &SigM) -> Option<serde_json::Map<String, serde_json::Value>> {
  let mut o = serde_json::Map::new();
  if let Some(p) = &m.prot {
    o.insert("protected".into(), serde_json::Value::String(String::from_utf8(p.clone()).ok()?));
  }
  if let Some(h) = &m.header {
    o.insert("header".into(), header_json(h));
  }
  o.insert("signature".into(), serde_json::Value::String(String::from_utf8(m.sig.clone()).ok()?));
  Some(o)
}

fn expand<'a>(det: &'a Option<Vec<u8>>, parsed: Option<&'a [u8]>) -> Option<&'a [u8]> {
  match (det.as_deref(), parsed.filter(|p| !p.is_empty())) {
    (Some(p), None) => Some(p),
    (None, Some(p)) => Some(p),
    _ => None,
  }
}

/// `real <alg> <variant>`: a compact token signed with a real key, its signature segment altered, decoded by the library and
/// verified with the library's own verifier for that algorithm (EdDSAJwsVerifier / EcDSAJwsVerifier).
/// variants: `valid` | `flip:<byte>:<bit>` | `append:<k>` (k zero bytes) | `appendr:<k>` (k 0xA5 bytes) | `trunc:<k>` | `zero`
/// | `der` (ECDSA: the ASN.1 DER form of the same r, s) | `otherkey` | `otheralg` (key of the other family)
fn real(alg: &str, variant: &str) -> String {
  use identity_core::convert::FromJson;
  use identity_jose::jws::JwsAlgorithm;
  use identity_ecdsa_verifier::EcDSAJwsVerifier;
  use identity_eddsa_verifier::EdDSAJwsVerifier;
  let b64 = crate::jwtu::b64;
  // `crossalg`: the protected header names ANOTHER algorithm than the one the key and the signature are of
  let hdr_alg = if variant == "crossalg" {
    match alg {
      "ES256" => "ES256K",
      "ES256K" => "ES256",
      _ => "ES256",
    }
  } else if variant == "crossalg2" {
    match alg {
      "EdDSA" => "ES256K",
      _ => "EdDSA",
    }
  } else {
    alg
  };
  let header = format!(r#"{{"alg":"{}"}}"#, hdr_alg);
  let si = format!("{}.{}", b64(header.as_bytes()), b64(br#"{"iss":"did:ex:i1","n":1}"#));
  // (signature bytes, DER form if any, public JWK, another public JWK of the same family)
  let (sig, der, jwk, other): (Vec<u8>, Option<Vec<u8>>, String, String) = match alg {
    "ES256" => {
      use p256::ecdsa::signature::Signer;
      let mk = |seed: u8| {
        let sk = p256::ecdsa::SigningKey::from_slice(&[seed; 32]).unwrap();
        let pt = sk.verifying_key().to_encoded_point(false);
        let jwk = format!(r#"{{"kty":"EC","crv":"P-256","x":"{}","y":"{}"}}"#, b64(pt.x().unwrap()), b64(pt.y().unwrap()));
        (sk, jwk)
      };
      let (sk, jwk) = mk(7);
      let sg: p256::ecdsa::Signature = sk.sign(si.as_bytes());
      (sg.to_bytes().to_vec(), Some(sg.to_der().as_bytes().to_vec()), jwk, mk(9).1)
    }
    "ES256K" => {
      use k256::ecdsa::signature::Signer;
      let mk = |seed: u8| {
        let sk = k256::ecdsa::SigningKey::from_slice(&[seed; 32]).unwrap();
        let pt = sk.verifying_key().to_encoded_point(false);
        let jwk = format!(r#"{{"kty":"EC","crv":"secp256k1","x":"{}","y":"{}"}}"#, b64(pt.x().unwrap()), b64(pt.y().unwrap()));
        (sk, jwk)
      };
      let (sk, jwk) = mk(7);
      let sg: k256::ecdsa::Signature = sk.sign(si.as_bytes());
      (sg.to_bytes().to_vec(), Some(sg.to_der().as_bytes().to_vec()), jwk, mk(9).1)
    }
    "EdDSA" => {
      use identity_storage::JwkStorage;
      let rt = tokio::runtime::Builder::new_current_thread().build().unwrap();
      let store = identity_storage::JwkMemStore::new();
      let a = rt.block_on(store.generate(identity_storage::JwkMemStore::ED25519_KEY_TYPE, JwsAlgorithm::EdDSA)).unwrap();
      let b = rt.block_on(store.generate(identity_storage::JwkMemStore::ED25519_KEY_TYPE, JwsAlgorithm::EdDSA)).unwrap();
      let sg = rt.block_on(store.sign(&a.key_id, si.as_bytes(), &a.jwk)).unwrap();
      use identity_core::convert::ToJson;
      (sg, None, a.jwk.to_json().unwrap(), b.jwk.to_json().unwrap())
    }
    _ => return "bad-request".into(),
  };
  let p: Vec<&str> = variant.split(':').collect();
  let mut key_json = jwk.clone();
  let altered: Vec<u8> = match p.as_slice() {
    ["valid"] => sig.clone(),
    ["flip", by, bit] => {
      let (Ok(by), Ok(bit)) = (by.parse::<usize>(), bit.parse::<u32>()) else { return "bad-request".into() };
      let mut s = sig.clone();
      if by >= s.len() || bit > 7 {
        return "bad-request".into();
      }
      s[by] ^= 1 << bit;
      s
    }
    ["append", k] => {
      let Ok(k) = k.parse::<usize>() else { return "bad-request".into() };
      let mut s = sig.clone();
      s.extend(std::iter::repeat(0u8).take(k));
      s
    }
    ["appendr", k] => {
      let Ok(k) = k.parse::<usize>() else { return "bad-request".into() };
      let mut s = sig.clone();
      s.extend(std::iter::repeat(0xa5u8).take(k));
      s
    }
    ["trunc", k] => {
      let Ok(k) = k.parse::<usize>() else { return "bad-request".into() };
      sig[..sig.len().saturating_sub(k)].to_vec()
    }
    ["zero"] => vec![0u8; sig.len()],
    ["der"] => match &der {
      Some(d) => d.clone(),
      None => return "bad-request".into(),
    },
    ["otherkey"] => {
      key_json = other.clone();
      sig.clone()
    }
    ["crossalg"] | ["crossalg2"] => sig.clone(),
    _ => return "bad-request".into(),
  };
  let token = format!("{}.{}", si, b64(&altered));
  let Ok(key) = Jwk::from_json(&key_json) else { return "bad-request".into() };
  let item = match Decoder::new().decode_compact_serialization(token.as_bytes(), None) {
    Ok(i) => i,
    Err(_) => return with_real("decode-err", variant),
  };
  let redo = || Decoder::new().decode_compact_serialization(token.as_bytes(), None);
  let ok = if alg == "EdDSA" { item.verify(&EdDSAJwsVerifier::default(), &key).is_ok() } else { item.verify(&EcDSAJwsVerifier::default(), &key).is_ok() };
  // a token whose header names another algorithm must be rejected by BOTH dispatchers
  let ok = if variant.starts_with("crossalg") {
    ok || redo().map(|i| i.verify(&EdDSAJwsVerifier::default(), &key).is_ok()).unwrap_or(false) || redo().map(|i| i.verify(&EcDSAJwsVerifier::default(), &key).is_ok()).unwrap_or(false)
  } else {
    ok
  };
  with_real(if ok { "verified" } else { "rejected" }, variant)
}

fn with_real(obs: &str, variant: &str) -> String {
  let want_verified = variant == "valid";
  if (obs == "verified") != want_verified {
    format!("{}\t#FAIL:real-verifier-binding:a token whose signature segment is `{}` is {} by the library's own verifier", obs, variant, obs)
  } else {
    obs.to_string()
  }
}

// ---------------------------------------------------------------------------------------------------------
// `vfy`: the library's own verifiers (EdDSAJwsVerifier / EcDSAJwsVerifier) against their model (IdModel/Jose/Verifier.lean).
// Request: `C01 vfy d=<ed|ec> alg=<name> kty=<okp|ec|rsa|oct> crv=<hex|~> x=<len|bad|~> y=<len|bad|~> sl=<n> P=<curves|~> S=<curves|~>
//           K=<hex JWK json> G=<hex signature>`
// kty … S are what the model reads (S: the curves whose signature scheme accepts (message, G) under the key's coordinates,
// computed with the third-party crates directly); K and G are what the implementation gets.  `run` recomputes kty / crv / x /
// y / sl from K and G and refuses a request whose abstract part does not describe them.
const VFY_MSG: &[u8] = b"eyJhbGciOiJFZERTQSJ9.eyJpc3MiOiJkaWQ6ZXg6aTEifQ";

fn vfy_b64dec(s: &str) -> Option<Vec<u8>> {
  identity_jose::jwu::decode_b64(s).ok()
}
fn vfy_len(s: Option<&str>) -> String {
  match s {
    None => "~".into(),
    Some(s) => vfy_b64dec(s).map(|b| b.len().to_string()).unwrap_or_else(|| "bad".into()),
  }
}
/// (kty, crv, x, y) as the model reads them
fn vfy_abstract(key_json: &str) -> Option<(String, String, String, String)> {
  let v: serde_json::Value = serde_json::from_str(key_json).ok()?;
  let kty = match v.get("kty")?.as_str()? {
    "OKP" => "okp",
    "EC" => "ec",
    "RSA" => "rsa",
    "oct" => "oct",
    _ => return None,
  };
  let crv = v.get("crv").and_then(|c| c.as_str()).map(|c| crate::rng::hex(c.as_bytes())).unwrap_or_else(|| "~".into());
  Some((kty.into(), crv, vfy_len(v.get("x").and_then(|c| c.as_str())), vfy_len(v.get("y").and_then(|c| c.as_str()))))
}
/// curves on which the key's coordinates are a public key, and curves whose scheme accepts (VFY_MSG, sig) under it
fn vfy_facts(key_json: &str, sig: &[u8], ed_point: bool, ed_sig_ok: bool) -> (Vec<&'static str>, Vec<&'static str>) {
  let v: serde_json::Value = serde_json::from_str(key_json).unwrap_or_default();
  let x = v.get("x").and_then(|c| c.as_str()).and_then(vfy_b64dec);
  let y = v.get("y").and_then(|c| c.as_str()).and_then(vfy_b64dec);
  let (mut p, mut s) = (vec![], vec![]);
  if ed_point {
    p.push("Ed25519");
  }
  if ed_sig_ok {
    s.push("Ed25519");
  }
  if let (Some(x), Some(y)) = (x, y) {
    if x.len() == 32 && y.len() == 32 {
      let mut sec1 = vec![4u8];
      sec1.extend(&x);
      sec1.extend(&y);
      if let Ok(pk) = p256::PublicKey::from_sec1_bytes(&sec1) {
        p.push("P-256");
        use p256::ecdsa::signature::Verifier;
        if let Ok(sg) = p256::ecdsa::Signature::from_slice(sig) {
          if p256::ecdsa::VerifyingKey::from(pk).verify(VFY_MSG, &sg).is_ok() {
            s.push("P-256");
          }
        }
      }
      if let Ok(pk) = k256::PublicKey::from_sec1_bytes(&sec1) {
        p.push("secp256k1");
        use k256::ecdsa::signature::Verifier;
        if let Ok(sg) = k256::ecdsa::Signature::from_slice(sig) {
          if k256::ecdsa::VerifyingKey::from(pk).verify(VFY_MSG, &sg).is_ok() {
            s.push("secp256k1");
          }
        }
      }
    }
  }
  (p, s)
}
fn vfy_run(args: &[&str]) -> String {
  use identity_core::convert::FromJson;
  use identity_ecdsa_verifier::EcDSAJwsVerifier;
  use identity_eddsa_verifier::EdDSAJwsVerifier;
  use identity_jose::jws::{JwsAlgorithm, JwsVerifier, VerificationInput};
  let get = |k: &str| args.iter().find_map(|a| a.strip_prefix(k).and_then(|r| r.strip_prefix('=')));
  let (Some(d), Some(alg), Some(kty), Some(crv), Some(x), Some(y), Some(sl), Some(k), Some(g)) = (get("d"), get("alg"), get("kty"), get("crv"), get("x"), get("y"), get("sl"), get("K"), get("G")) else { return "bad-request".into() };
  let (Some(kj), Some(sig)) = (unhex(k).and_then(|b| String::from_utf8(b).ok()), unhex(g)) else { return "bad-request".into() };
  // the abstract part must describe K and G
  match vfy_abstract(&kj) {
    Some((k2, c2, x2, y2)) if k2 == kty && c2 == crv && x2 == x && y2 == y && sl == sig.len().to_string() => {}
    _ => return "bad-request".into(),
  }
  let Ok(alg) = alg.parse::<JwsAlgorithm>() else { return "bad-request".into() };
  let Ok(key) = Jwk::from_json(&kj) else { return "bad-request".into() };
  let input = VerificationInput { alg, signing_input: VFY_MSG.to_vec().into(), decoded_signature: sig.into() };
  let r = std::panic::catch_unwind(std::panic::AssertUnwindSafe(|| match d {
    "ed" => EdDSAJwsVerifier::default().verify(input, &key).is_ok(),
    _ => EcDSAJwsVerifier::default().verify(input, &key).is_ok(),
  }));
  match r {
    Ok(true) => "ok".into(),
    Ok(false) => "rejected".into(),
    Err(_) => "panic\t#FAIL:verifier-panicked:the library's verifier panicked on this key / signature".into(),
  }
}
fn vfy_gen(thorough: bool, out: &mut impl Write) {
  use identity_core::convert::ToJson;
  use identity_jose::jws::JwsAlgorithm;
  let b64 = crate::jwtu::b64;
  // real keys and signatures over VFY_MSG
  let (ed_x, ed_x2, ed_sig) = {
    use identity_storage::JwkStorage;
    let rt = tokio::runtime::Builder::new_current_thread().build().unwrap();
    let store = identity_storage::JwkMemStore::new();
    let a = rt.block_on(store.generate(identity_storage::JwkMemStore::ED25519_KEY_TYPE, JwsAlgorithm::EdDSA)).unwrap();
    let b = rt.block_on(store.generate(identity_storage::JwkMemStore::ED25519_KEY_TYPE, JwsAlgorithm::EdDSA)).unwrap();
    let sg = rt.block_on(store.sign(&a.key_id, VFY_MSG, &a.jwk)).unwrap();
    let _ = a.jwk.to_json();
    (a.jwk.try_okp_params().unwrap().x.clone(), b.jwk.try_okp_params().unwrap().x.clone(), sg)
  };
  let (r_x, r_y, r_x2, r_y2, r_sig) = {
    use p256::ecdsa::signature::Signer;
    let mk = |seed: u8| {
      let sk = p256::ecdsa::SigningKey::from_slice(&[seed; 32]).unwrap();
      let pt = sk.verifying_key().to_encoded_point(false);
      (sk, b64(pt.x().unwrap()), b64(pt.y().unwrap()))
    };
    let (sk, x, y) = mk(7);
    let (_, x2, y2) = mk(9);
    let sg: p256::ecdsa::Signature = sk.sign(VFY_MSG);
    (x, y, x2, y2, sg.to_bytes().to_vec())
  };
  let (k_x, k_y, k_x2, k_y2, k_sig) = {
    use k256::ecdsa::signature::Signer;
    let mk = |seed: u8| {
      let sk = k256::ecdsa::SigningKey::from_slice(&[seed; 32]).unwrap();
      let pt = sk.verifying_key().to_encoded_point(false);
      (sk, b64(pt.x().unwrap()), b64(pt.y().unwrap()))
    };
    let (sk, x, y) = mk(7);
    let (_, x2, y2) = mk(9);
    let sg: k256::ecdsa::Signature = sk.sign(VFY_MSG);
    (x, y, x2, y2, sg.to_bytes().to_vec())
  };
  // a coordinate in each of the forms: own, another key's, one byte short / long, not base64url, empty
  let forms = |own: &str, other: &str| -> Vec<(&'static str, String)> {
    let raw = vfy_b64dec(own).unwrap();
    let mut long = raw.clone();
    long.push(0);
    vec![("own", own.to_string()), ("other", other.to_string()), ("short", b64(&raw[..31])), ("long", b64(&long)), ("bad", format!("{}*", &own[..10])), ("empty", String::new())]
  };
  let sigs = |s: &[u8]| -> Vec<Vec<u8>> {
    let mut flip = s.to_vec();
    flip[5] ^= 4;
    let mut long = s.to_vec();
    long.push(0);
    vec![s.to_vec(), flip, s[..63].to_vec(), long, vec![]]
  };
  let algs = ["EdDSA", "ES256", "ES256K", "ES384", "HS256", "none"];
  let mut emit = |d: &str, alg: &str, key_json: &str, sig: &[u8], ed_point: bool, ed_sig_ok: bool| {
    let Some((kty, crv, x, y)) = vfy_abstract(key_json) else { return };
    let (p, s) = vfy_facts(key_json, sig, ed_point, ed_sig_ok);
    let j = |v: &[&str]| if v.is_empty() { "~".to_string() } else { v.join(",") };
    writeln!(out, "C01 vfy d={} alg={} kty={} crv={} x={} y={} sl={} P={} S={} K={} G={}", d, alg, kty, crv, x, y, sig.len(), j(&p), j(&s), hex(key_json.as_bytes()), if sig.is_empty() { "-".to_string() } else { hex(sig) }).unwrap();
  };
  // OKP keys: every crv string x every form of x x every signature form, through both dispatchers, under every algorithm name
  for (ci, crv) in ["Ed25519", "Ed448", "X25519", "X448", "ed25519", "ED25519", "", "P-256", "secp256k1", "Ed25519 "].iter().enumerate() {
    for (xi, (xf, x)) in forms(&ed_x, &ed_x2).iter().enumerate() {
      for (si, sig) in sigs(&ed_sig).iter().enumerate() {
        for (ai, alg) in algs.iter().enumerate() {
          for d in ["ed", "ec"] {
            // quick: the full grid for the dispatcher's own algorithm, a third of the rest
            if !(thorough || (*alg == "EdDSA" && d == "ed") || (ci + xi + si + ai) % 3 == 0) {
              continue;
            }
            let key = format!(r#"{{"kty":"OKP","crv":{},"x":"{}"}}"#, serde_json::to_string(crv).unwrap(), x);
            emit(d, alg, &key, sig, *xf == "own" || *xf == "other", *xf == "own" && si == 0);
          }
        }
      }
    }
  }
  // EC keys of both curves: every crv string x forms of x and y x signature forms
  for (fam, x0, y0, x1, y1, sig0) in [("P-256", &r_x, &r_y, &r_x2, &r_y2, &r_sig), ("secp256k1", &k_x, &k_y, &k_x2, &k_y2, &k_sig)] {
    for (ci, crv) in [fam, if fam == "P-256" { "secp256k1" } else { "P-256" }, "P-384", "Ed25519", "", "p-256"].iter().enumerate() {
      for (xi, (_, x)) in forms(x0, x1).iter().enumerate() {
        for (yi, (_, y)) in forms(y0, y1).iter().enumerate() {
          for (si, sig) in sigs(sig0).iter().enumerate() {
            for (ai, alg) in algs.iter().enumerate() {
              for d in ["ec", "ed"] {
                let own_alg = (*alg == "ES256" || *alg == "ES256K") && d == "ec";
                if !(thorough || (own_alg && (ci + xi + yi + si) % 2 == 0) || (ci + xi + yi + si + ai) % 11 == 0) {
                  continue;
                }
                let key = format!(r#"{{"kty":"EC","crv":{},"x":"{}","y":"{}"}}"#, serde_json::to_string(crv).unwrap(), x, y);
                emit(d, alg, &key, sig, false, false);
              }
            }
          }
        }
      }
    }
  }
  // the 64 bytes of a real point cut elsewhere than in the middle (0+64, 16+48, 31+33, 33+31, 48+16, 64+0): each coordinate has the
  // wrong length although the total is right
  for (fam, alg, x0, y0, sig0) in [("P-256", "ES256", &r_x, &r_y, &r_sig), ("secp256k1", "ES256K", &k_x, &k_y, &k_sig)] {
    let mut all = vfy_b64dec(x0).unwrap();
    all.extend(vfy_b64dec(y0).unwrap());
    for cut in [0usize, 16, 31, 32, 33, 48, 64] {
      for sig in sigs(sig0).iter().take(2) {
        let key = format!(r#"{{"kty":"EC","crv":"{}","x":"{}","y":"{}"}}"#, fam, b64(&all[..cut]), b64(&all[cut..]));
        emit("ec", alg, &key, sig, false, false);
      }
    }
  }
  // keys of the other families
  for key in [r#"{"kty":"RSA","n":"AQAB","e":"AQAB"}"#, r#"{"kty":"oct","k":"AQAB"}"#] {
    for alg in algs {
      for d in ["ed", "ec"] {
        emit(d, alg, key, &ed_sig, false, false);
      }
    }
  }
}

pub fn run(args: &[&str]) -> String {
  if args.first().copied() == Some("vfy") {
    return vfy_run(&args[1..]);
  }
  if let [Some("real"), Some(alg), Some(v)] = [args.first().copied(), args.get(1).copied(), args.get(2).copied()] {
    if args.len() == 3 {
      return real(alg, v);
    }
  }
  run_inner(args)
}

fn run_inner(args: &[&str]) -> String {
  match args.first().copied() {
    Some("compact") if args.len() >= 4 => {
      let (Some(tok), Some(det), Some((kid, key))) = (unhex(args[1]), opt_bytes(args[2]), key_of(args[3])) else { return "bad-request".into() };
      match Decoder::new().decode_compact_serialization(&tok, det.as_deref()) {
        Err(_) => "err".into(),
        Ok(item) => {
          let segs: Vec<&[u8]> = tok.split(|b| *b == b'.').collect();
          let Some(pl) = expand(&det, segs.get(1).copied()) else { return "ok:?\t#FAIL:accepted-without-unique-payload:".into() };
          if segs.len() != 3 {
            return "ok:?\t#FAIL:accepted-wrong-segment-count:".into();
          }
          show_item(item, kid, &key, Some(segs[0]), pl, segs[2])
        }
      }
    }
    Some("flat") if args.len() >= 5 => {
      let (Some(pl), Some(sg), Some(det), Some((kid, key))) = (opt_bytes(args[1]), parse_sig(args[2]), opt_bytes(args[3]), key_of(args[4])) else {
        return "bad-request".into();
      };
      let Some(mut o) = sig_json(&sg) else { return "bad-request".into() };
      if let Some(p) = &pl {
        let Ok(s) = String::from_utf8(p.clone()) else { return "bad-request".into() };
        o.insert("payload".into(), serde_json::Value::String(s));
      }
      let tok = serde_json::Value::Object(o).to_string();
      match Decoder::new().decode_flattened_serialization(tok.as_bytes(), det.as_deref()) {
        Err(_) => "err".into(),
        Ok(item) => {
          let Some(p) = expand(&det, pl.as_deref()) else { return "ok:?\t#FAIL:accepted-without-unique-payload:".into() };
          show_item(item, kid, &key, sg.prot.as_deref(), p, &sg.sig)
        }
      }
    }
    Some("general") if args.len() >= 5 => {
      let (Some(pl), Some(det), Some((kid, key)), Ok(n)) = (opt_bytes(args[1]), opt_bytes(args[2]), key_of(args[3]), args[4].parse::<usize>()) else {
        return "bad-request".into();
      };
      if args.len() < 5 + n {
        return "bad-request".into();
      }
      let sigs: Option<Vec<SigM>> = args[5..5 + n].iter().map(|t| parse_sig(t)).collect();
      let Some(sigs) = sigs else { return "bad-request".into() };
      let js: Option<Vec<serde_json::Value>> = sigs.iter().map(|m| sig_json(m).map(serde_json::Value::Object)).collect();
      let Some(js) = js else { return "bad-request".into() };
      let mut o = serde_json::Map::new();
      if let Some(p) = &pl {
        let Ok(s) = String::from_utf8(p.clone()) else { return "bad-request".into() };
        o.insert("payload".into(), serde_json::Value::String(s));
      }
      o.insert("signatures".into(), serde_json::Value::Array(js));
      let tok = serde_json::Value::Object(o).to_string();
      match Decoder::new().decode_general_serialization(tok.as_bytes(), det.as_deref()) {
        Err(_) => "err".into(),
        Ok(iter) => {
          let Some(p) = expand(&det, pl.as_deref()) else { return "ok:?\t#FAIL:accepted-without-unique-payload:".into() };
          let mut out = vec![];
          let mut fail = None;
          for (i, r) in iter.enumerate() {
            match r {
              Err(_) => out.push("err".to_string()),
              Ok(item) => {
                let s = show_item(item, kid, &key, sigs[i].prot.as_deref(), p, &sigs[i].sig);
                let mut it = s.splitn(2, '\t');
                out.push(it.next().unwrap().to_string());
                if let Some(f) = it.next() {
                  fail = fail.or(Some(f.to_string()));
                }
              }
            }
          }
          match fail {
            Some(f) => format!("{}\t{}", out.join(" "), f),
            None => out.join(" "),
          }
        }
      }
    }
    Some("real") if args.len() == 2 => {
      // implementation-only stream (a test of the crypto crates, reported separately): a token
      // signed with a real Ed25519 key verifies, and no single-bit mutation of it does
      let Ok(n) = args[1].parse::<u64>() else { return "bad-request".into() };
      real_crypto(n)
    }
    _ => "bad-request".into(),
  }
}

fn real_crypto(n: u64) -> String {
  use identity_eddsa_verifier::EdDSAJwsVerifier;
  use identity_jose::jws::{CompactJwsEncoder, JwsAlgorithm};
  use identity_storage::{JwkMemStore, JwkStorage};
  let rt = tokio::runtime::Builder::new_current_thread().build().unwrap();
  let store = JwkMemStore::new();
  let gen = rt.block_on(store.generate(JwkMemStore::ED25519_KEY_TYPE, JwsAlgorithm::EdDSA)).unwrap();
  let mut r = Rng::new(n);
  let len = 1 + r.below(40) as usize;
  let payload = r.bytes(len);
  let mut h = JwsHeader::new();
  h.set_alg(JwsAlgorithm::EdDSA);
  h.set_kid("k");
  let enc = CompactJwsEncoder::new(&payload, &h).unwrap();
  let sig = rt.block_on(store.sign(&gen.key_id, enc.signing_input(), &gen.jwk)).unwrap();
  let tok = enc.into_jws(&sig).into_bytes();
  let verifier = EdDSAJwsVerifier::default();
  let check = |t: &[u8]| -> bool {
    match Decoder::new().decode_compact_serialization(t, None) {
      Ok(item) => item.verify(&verifier, &gen.jwk).is_ok(),
      Err(_) => false,
    }
  };
  if !check(&tok) {
    return "impl-only\t#FAIL:real-token-does-not-verify:".into();
  }
  for i in 0..tok.len() {
    for bit in 0..8 {
      let mut t = tok.clone();
      t[i] ^= 1 << bit;
      if check(&t) {
        return format!("impl-only\t#FAIL:mutated-token-verifies:byte {} bit {} of {}", i, bit, hex(&tok));
      }
    }
  }
  "impl-only".into()
}

// ------------------------------------------------------------------------------------------------
fn ptab(headers: &[Vec<u8>]) -> String {
  let mut seen = vec![];
  let mut out = vec![];
  for h in headers {
    if seen.contains(h) {
      continue;
    }
    seen.push(h.clone());
    if let Some(spec) = spec_of_json(h) {
      out.push(format!("P={}={}", hex(h), spec));
    }
  }
  out.join(" ")
}

fn hdr_json_bytes(spec: &str) -> Vec<u8> {
  header_json(&parse_hspec(spec).unwrap().unwrap()).to_string().into_bytes()
}

pub fn gen(thorough: bool, seed: u64, out: &mut impl Write) {
  let mut r = Rng::new(seed ^ 0xC01);
  // (0) the library's own verifiers on tokens signed with real keys: every single-bit flip of the signature, appended
  // and removed bytes, the all-zero signature, the DER form (ECDSA), another key of the same family
  for alg in ["EdDSA", "ES256", "ES256K"] {
    writeln!(out, "C01 real {} valid", alg).unwrap();
    for by in 0..64 {
      for bit in 0..8 {
        if thorough || (by * 8 + bit) % 5 == 0 || by == 0 || by == 31 || by == 32 || by == 63 {
          writeln!(out, "C01 real {} flip:{}:{}", alg, by, bit).unwrap();
        }
      }
    }
    for k in [1usize, 2, 3, 6, 7, 8, 13, 32, 64] {
      writeln!(out, "C01 real {} append:{}", alg, k).unwrap();
      writeln!(out, "C01 real {} appendr:{}", alg, k).unwrap();
      writeln!(out, "C01 real {} trunc:{}", alg, k).unwrap();
    }
    writeln!(out, "C01 real {} zero", alg).unwrap();
    writeln!(out, "C01 real {} otherkey", alg).unwrap();
    writeln!(out, "C01 real {} crossalg", alg).unwrap();
    writeln!(out, "C01 real {} crossalg2", alg).unwrap();
    if alg != "EdDSA" {
      writeln!(out, "C01 real {} der", alg).unwrap();
    }
  }
  vfy_gen(thorough, out);
  let prot_specs = [
    "H:EdDSA:-:-:-:-",
    "H:EdDSA:t:b64:-:-",
    "H:EdDSA:f:b64:-:-",
    "H:EdDSA:f:-:-:-",
    "H:-:-:-:kid:-",
    "H:ES256:-:-:kid,typ:x",
    "H:EdDSA:-:=:-:-",
    "H:none:-:-:-:-",
    "H:none:-:-:kid,typ:-",
  ];
  let payloads: [&[u8]; 6] = [b"payload", b"{\"a\":1}", b"a.b", b"", b"\x00\xff\x10bin", b"aGk"];
  let keys = ["k:7:-", "k:7:EdDSA", "k:7:ES256", "k:7:eddsa", "k:7:Ed25519", "k:7:ECDH-ES+A256KW", "k:7:", "k:7:none"];
  // (2) decision table: compact
  for ps in prot_specs {
    let hj = hdr_json_bytes(ps);
    let b64flag = parse_hspec(ps).unwrap().unwrap().b64.unwrap_or(true);
    let seg0 = b64url(&hj);
    for pl in payloads {
      let enc_pl: Vec<u8> = if b64flag { b64url(pl).into_bytes() } else { pl.to_vec() };
      for placement in ["attached", "detached", "both", "neither"] {
        let (emb, det): (Vec<u8>, Option<Vec<u8>>) = match placement {
          "attached" => (enc_pl.clone(), None),
          "detached" => (vec![], Some(enc_pl.clone())),
          "both" => (enc_pl.clone(), Some(enc_pl.clone())),
          _ => (vec![], None),
        };
        let pl_used = if placement == "detached" { enc_pl.clone() } else { emb.clone() };
        let mut si = seg0.clone().into_bytes();
        si.push(b'.');
        si.extend_from_slice(&pl_used);
        for sigkind in ["good", "badmac", "badb64", "noncanon", "otherkey", "empty"] {
          let sig: Vec<u8> = match sigkind {
            "good" => b64url(&toy_mac(7, &si)).into_bytes(),
            "empty" => vec![],
            "badmac" => b64url(&[7, 0, 0, 0]).into_bytes(),
            "badb64" => b"!!!!".to_vec(),
            "noncanon" => {
              let mut s = b64url(&toy_mac(7, &si)).into_bytes();
              // 4 bytes -> 6 chars, last char carries 4 padding bits: make them non-zero
              let l = s.len() - 1;
              s[l] = if s[l] == b'B' { b'C' } else { b'B' };
              s
            }
            _ => b64url(&toy_mac(8, &si)).into_bytes(),
          };
          let mut tok = seg0.clone().into_bytes();
          tok.push(b'.');
          tok.extend_from_slice(&emb);
          tok.push(b'.');
          tok.extend_from_slice(&sig);
          if sigkind == "good" && (placement == "attached" || placement == "detached") {
            // base64 padding appended to one segment at a time
            for (which, pad) in [(0usize, "="), (0, "=="), (1, "="), (2, "="), (2, "==")] {
              let mut segs: Vec<Vec<u8>> = vec![seg0.clone().into_bytes(), emb.clone(), sig.clone()];
              segs[which].extend_from_slice(pad.as_bytes());
              let t = segs.join(&b'.');
              writeln!(out, "C01 compact {} {} k:7:- {}", hex(&t), det.as_ref().map(|d| hex(d)).unwrap_or("~".into()), ptab(&[hj.clone()])).unwrap();
              if std::str::from_utf8(&emb).is_ok() && !emb.iter().any(|b| *b == b'"' || *b == b'\\' || *b < 0x20) {
                let plm = if placement == "detached" { "~".to_string() } else { hex(&segs[1]) };
                writeln!(out, "C01 flat {} S/{}/_/{} {} k:7:- {}", plm, hex(&segs[0]), hex(&segs[2]), det.as_ref().map(|d| hex(d)).unwrap_or("~".into()), ptab(&[hj.clone()])).unwrap();
              }
            }
          }
          for k in keys {
            if (placement == "both" || placement == "neither" || sigkind != "good") && k != "k:7:-" {
              continue;
            }
            writeln!(out, "C01 compact {} {} {} {}", hex(&tok), det.as_ref().map(|d| hex(d)).unwrap_or("~".into()), k, ptab(&[hj.clone()])).unwrap();
          }
        }
        // JSON forms share the member structure
        // (JSON members that need escaping are outside this stream: the serde layer borrows `&str`
        // and rejects them; that behaviour belongs to C08)
        if std::str::from_utf8(&enc_pl).is_ok() && !enc_pl.iter().any(|b| *b == b'"' || *b == b'\\' || *b < 0x20) {
          let sig = b64url(&toy_mac(7, &si));
          for u in ["_", "H:-:-:-:typ:-", "H:EdDSA:-:-:-:-", "H:-:-:-:kid:-"] {
            let plm = if emb.is_empty() && placement != "attached" && placement != "both" { "~".to_string() } else { hex(&emb) };
            let sg = format!("S/{}/{}/{}", hex(seg0.as_bytes()), u, hex(sig.as_bytes()));
            writeln!(out, "C01 flat {} {} {} k:7:- {}", plm, sg, det.as_ref().map(|d| hex(d)).unwrap_or("~".into()), ptab(&[hj.clone()])).unwrap();
            // unprotected-only variant (alg only in the unprotected header)
            let mut si2 = vec![b'.'];
            si2.extend_from_slice(&pl_used);
            let sg2 = format!("S/~/{}/{}", u, hex(b64url(&toy_mac(7, &si2)).as_bytes()));
            writeln!(out, "C01 flat {} {} {} k:7:- ", plm, sg2, det.as_ref().map(|d| hex(d)).unwrap_or("~".into())).unwrap();
          }
          // white space around a JSON member (payload, protected, signature): the member is used exactly as received, so a
          // padded base64url member is no base64url, and a padded unencoded payload is another payload than the signed one
          if !emb.is_empty() && (placement == "attached" || placement == "both") {
            for (pre, post) in [(" ", ""), ("", " "), (" ", " "), ("\n", ""), ("", "\n"), ("\t", "\r\n")] {
              let wrap = |b: &[u8]| -> String {
                let mut v = pre.as_bytes().to_vec();
                v.extend_from_slice(b);
                v.extend_from_slice(post.as_bytes());
                hex(&v)
              };
              let sg = format!("S/{}/_/{}", hex(seg0.as_bytes()), hex(sig.as_bytes()));
              writeln!(out, "C01 flat {} {} {} k:7:- {}", wrap(&emb), sg, det.as_ref().map(|d| hex(d)).unwrap_or("~".into()), ptab(&[hj.clone()])).unwrap();
              let sgp = format!("S/{}/_/{}", wrap(seg0.as_bytes()), hex(sig.as_bytes()));
              writeln!(out, "C01 flat {} {} {} k:7:- {}", hex(&emb), sgp, det.as_ref().map(|d| hex(d)).unwrap_or("~".into()), ptab(&[hj.clone()])).unwrap();
              let sgs = format!("S/{}/_/{}", hex(seg0.as_bytes()), wrap(sig.as_bytes()));
              writeln!(out, "C01 flat {} {} {} k:7:- {}", hex(&emb), sgs, det.as_ref().map(|d| hex(d)).unwrap_or("~".into()), ptab(&[hj.clone()])).unwrap();
              writeln!(out, "C01 general {} {} k:7:- 2 {} {} {}", wrap(&emb), det.as_ref().map(|d| hex(d)).unwrap_or("~".into()), sg, sg, ptab(&[hj.clone()])).unwrap();
            }
          }
        }
      }
    }
  }
  // general: two signatures, mixing header shapes
  for (pa, pb) in [(0usize, 0usize), (0, 1), (1, 2), (2, 2), (0, 4), (4, 0), (0, 5)] {
    for pl in [&b"payload"[..], &b"a.b"[..]] {
      let ha = hdr_json_bytes(prot_specs[pa]);
      let hb = hdr_json_bytes(prot_specs[pb]);
      let plenc = b64url(pl);
      for emb in [plenc.as_bytes().to_vec(), pl.to_vec()] {
        let mk = |hj: &Vec<u8>, kid: u64| {
          let seg = b64url(hj);
          let mut si = seg.clone().into_bytes();
          si.push(b'.');
          si.extend_from_slice(&emb);
          format!("S/{}/_/{}", hex(seg.as_bytes()), hex(b64url(&toy_mac(kid, &si)).as_bytes()))
        };
        if std::str::from_utf8(&emb).is_ok() {
          writeln!(out, "C01 general {} ~ k:7:- 2 {} {} {}", hex(&emb), mk(&ha, 7), mk(&hb, 7), ptab(&[ha.clone(), hb.clone()])).unwrap();
          writeln!(out, "C01 general {} ~ k:7:- 2 {} {} {}", hex(&emb), mk(&ha, 7), mk(&hb, 9), ptab(&[ha.clone(), hb.clone()])).unwrap();
          // a signature whose protected header does not deserialise (not JSON / an algorithm of another signer: absent from the
          // parse table) before, between and after the others: it is an error of its own, the others keep THEIR headers
          for und in [b"not json".to_vec(), br#"{"alg":"XYZ","kid":"other"}"#.to_vec()] {
            let u = mk(&und, 7);
            writeln!(out, "C01 general {} ~ k:7:- 2 {} {} {}", hex(&emb), u, mk(&hb, 7), ptab(&[ha.clone(), hb.clone()])).unwrap();
            writeln!(out, "C01 general {} ~ k:7:- 3 {} {} {} {}", hex(&emb), mk(&ha, 7), u, mk(&hb, 7), ptab(&[ha.clone(), hb.clone()])).unwrap();
            writeln!(out, "C01 general {} ~ k:7:- 3 {} {} {} {}", hex(&emb), u, mk(&ha, 7), mk(&hb, 7), ptab(&[ha.clone(), hb.clone()])).unwrap();
            writeln!(out, "C01 general {} ~ k:7:- 3 {} {} {} {}", hex(&emb), mk(&ha, 7), mk(&hb, 7), u, ptab(&[ha.clone(), hb.clone()])).unwrap();
          }
        }
      }
    }
  }
  for k in 0..(if thorough { 40 } else { 4 }) {
    writeln!(out, "C01 real {}", seed * 1000 + k).unwrap();
  }
  // (3)+(4) verifying compact tokens with random payloads / header extras, then every single-byte
  // substitution at every position (3 values) and every single-bit flip
  let nbase = if thorough { 120 } else { 12 };
  for bi in 0..nbase {
    let b64flag = bi % 3 != 2;
    let spec = if b64flag { if bi % 2 == 0 { "H:EdDSA:-:-:kid:-" } else { "H:EdDSA:t:b64:typ:x" } } else { "H:EdDSA:f:b64:-:-" };
    let hj = hdr_json_bytes(spec);
    let seg0 = b64url(&hj);
    let n = 1 + r.below(24) as usize;
    let pl: Vec<u8> = if b64flag { r.bytes(n) } else { (0..n).map(|_| b"abcXYZ 019{}\":,"[r.below(15) as usize]).collect() };
    let emb: Vec<u8> = if b64flag { b64url(&pl).into_bytes() } else { pl.clone() };
    let mut si = seg0.clone().into_bytes();
    si.push(b'.');
    si.extend_from_slice(&emb);
    let mut tok = si.clone();
    tok.push(b'.');
    tok.extend_from_slice(b64url(&toy_mac(7, &si)).as_bytes());
    writeln!(out, "C01 compact {} ~ k:7:- {}", hex(&tok), ptab(&[hj.clone()])).unwrap();
    for i in 0..tok.len() {
      let mut muts: Vec<Vec<u8>> = vec![];
      for bit in 0..8 {
        let mut t = tok.clone();
        t[i] ^= 1 << bit;
        muts.push(t);
      }
      for v in [b'.', b'A', b'_'] {
        let mut t = tok.clone();
        t[i] = v;
        muts.push(t);
      }
      let mut t = tok.clone();
      t.remove(i);
      muts.push(t);
      // insertions (padding characters, alphabet characters, separators) before position i
      for v in [b'=', b'A', b'.', b' '] {
        let mut t = tok.clone();
        t.insert(i, v);
        muts.push(t);
      }
      if i + 1 == tok.len() {
        for suffix in [&b"="[..], &b"=="[..], &b"A"[..], &b"\n"[..]] {
          let mut t = tok.clone();
          t.extend_from_slice(suffix);
          muts.push(t);
        }
      }
      for t in muts {
        if t == tok {
          continue;
        }
        // the parse table lists what serde makes of the (possibly changed) first segment
        let seg: Vec<u8> = t.split(|b| *b == b'.').next().unwrap_or(&[]).to_vec();
        let tab = b64_strict(&seg).map(|hb| ptab(&[hb])).unwrap_or_default();
        writeln!(out, "C01 compact {} ~ k:7:- {}", hex(&t), tab).unwrap();
      }
    }
  }
}
