import IdModel.Time.Model
import Driver.Util
namespace Driver.C13
open IdModel IdModel.Time

def showFmt (u : Int) : String :=
  match toRfc3339 u with
  | .ok bs => hex bs
  | .err _ => "err"
  | .panic _ => "panic"

/-- the request's unit letter names the `Duration` constructor -/
def ctor (k : String) : Option String :=
  if k == "s" then some "seconds" else if k == "m" then some "minutes" else if k == "h" then some "hours"
  else if k == "d" then some "days" else if k == "w" then some "weeks" else none

def handle : List String → String
  | ["parse", h] =>
    match unhex h with
    | some bs => match parse bs with
      | .ok u => s!"ok:{u}:{showFmt u}"
      | .err _ => "err"
      | .panic _ => "panic"
    | none => "bad-request"
  | ["unix", n] =>
    match n.toInt? with
    | some u => match fromUnix u with
      | .ok v => s!"ok:{v}:{showFmt v}"
      | .err _ => "err"
      | .panic _ => "panic"
    | none => "bad-request"
  | [op, t, k, n] =>
    match t.toInt?, ctor k, n.toNat? with
    | some t, some c, some n =>
      match fromUnix t with
      | .ok t =>
        let r := if op == "add" then checkedAddDur t c n else if op == "sub" then checkedSubDur t c n else none
        if op != "add" && op != "sub" then "bad-request" else
        match r with
        | some (.ok (some v)) => s!"some:{v}"
        | some (.ok none) => "none"
        | some (.panic _) => "panic"
        | some (.err _) => "err"
        | none => "bad-request"
      | _ => "bad-request"
    | _, _, _ => "bad-request"
  -- durations that came in through serde are outside the model (implementation-side oracle only)
  | ["addj", _, _] => "u"
  | ["subj", _, _] => "u"
  | ["cmp", a, b] =>
    match a.toInt?, b.toInt? with
    | some a, some b =>
      match fromUnix a, fromUnix b with
      | .ok a, .ok b => if a < b then "lt" else if a == b then "eq" else "gt"
      | _, _ => "bad-request"
    | _, _ => "bad-request"
  | _ => "bad-request"

end Driver.C13
