//! C07 — credential / presentation <-> JWT claims conversion is lossless and consistent.
//!
//! Requests (tokens `key=value` joined by `;`, `~` = absent):
//!   `C07 enc id=<n>;iss=<u<n>|o<n>.<p>>;nbf=<unix>;exp=<unix>;sub=<n>;rest=<k>;cust=<n>`
//!        build the Credential, `serialize_jwt(custom)`, print the claims set; then sign it (toy scheme), run it through
//!        `JwtCredentialValidator::verify_signature` and compare the returned credential with the original
//!   `C07 dec exp=..;iss=..;iat=..;nbf=..;jti=..;sub=..;vid=..;viss=..;vnbf=..;vexp=..;vsub=..;rest=<k>;cust=..`
//!        build that claims set (the v* members inside `vc`), sign, `verify_signature`: credential or error kind
//!   `C07 penc id=..;holder=<n>;rest=<k>;exp=..;nbf=..;aud=..;cust=..`   and   `C07 pdec exp=..;iss=<n>;iat=..;nbf=..;jti=..;aud=..;vid=..;vholder=..;rest=<k>;cust=..`
//!        the same for presentations through `JwtPresentationValidator::validate`
//! `rest=<k>` selects one of the optional-member combinations of REST / PREST.
use crate::jwtu::*;
use crate::rng::Rng;
use identity_core::common::Object;
use identity_core::common::Timestamp;
use identity_core::common::Url;
use identity_core::convert::FromJson;
use identity_core::convert::ToJson;
use identity_credential::credential::Credential;
use identity_credential::credential::Jwt;
use identity_credential::presentation::JwtPresentationOptions;
use identity_credential::presentation::Presentation;
use identity_credential::validator::DecodedJwtPresentation;
use identity_credential::validator::JwtCredentialValidator;
use identity_credential::validator::JwtPresentationValidationOptions;
use identity_credential::validator::JwtPresentationValidator;
use identity_credential::validator::JwtValidationError;
use identity_document::document::CoreDocument;
use identity_document::verifiable::JwsVerificationOptions;
use serde_json::json;
use serde_json::Map;
use serde_json::Value;
use std::collections::HashMap;
use std::io::Write;

const MIN: i64 = -62167219200;
const MAX: i64 = 253402300799;

/// optional members copied verbatim into `vc` (k-th combination); `credentialSubject` properties included
fn rest_members(k: u32) -> Map<String, Value> {
  let mut m = Map::new();
  m.insert("@context".into(), json!("https://www.w3.org/2018/credentials/v1"));
  m.insert("type".into(), json!("VerifiableCredential"));
  m.insert("credentialSubject".into(), json!({}));
  let status = json!({"id": "https://e.x/status#1", "type": "T2022", "idx": "5"});
  let schema = json!({"id": "https://e.x/schema", "type": "JsonSchemaValidator2018"});
  let evidence = json!({"id": "https://e.x/ev", "type": ["DocumentVerification"], "level": 3});
  let tou = json!({"type": "IssuerPolicy", "id": "https://e.x/policy", "prohibition": [{"a": 1}]});
  let refresh = json!({"id": "https://e.x/refresh", "type": "ManualRefreshService2018"});
  let proof = json!({"type": "Ed25519Signature2018", "proofValue": "zzz"});
  let subj = json!({"degree": {"type": "BachelorDegree", "name": "B.Sc."}, "GPA": "4.0"});
  let add = |m: &mut Map<String, Value>, k: &str, v: &Value| {
    m.insert(k.to_string(), v.clone());
  };
  if k == 1 || k >= 6 {
    add(&mut m, "credentialSubject", &subj);
    m.insert("type".into(), json!(["VerifiableCredential", "UniversityDegreeCredential"]));
    m.insert("@context".into(), json!(["https://www.w3.org/2018/credentials/v1", "https://e.x/ctx"]));
  }
  if k == 2 || k >= 6 {
    add(&mut m, "credentialStatus", &status);
    add(&mut m, "credentialSchema", &schema);
  }
  if k == 3 || k >= 6 {
    add(&mut m, "evidence", &evidence);
    add(&mut m, "termsOfUse", &json!([tou, {"type": "Other"}]));
    add(&mut m, "refreshService", &refresh);
  }
  if k == 4 || k >= 6 {
    add(&mut m, "proof", &proof);
    add(&mut m, "nonTransferable", &json!(true));
  }
  if k == 5 || k >= 6 {
    add(&mut m, "custom1", &json!({"a": [1, 2, {"b": null}]}));
    add(&mut m, "name", &json!("n"));
  }
  if k == 7 {
    add(&mut m, "nonTransferable", &json!(false));
  }
  m
}
const NREST: u32 = 8;

fn prest_members(k: u32) -> Map<String, Value> {
  let mut m = Map::new();
  m.insert("@context".into(), json!("https://www.w3.org/2018/credentials/v1"));
  m.insert("type".into(), json!("VerifiablePresentation"));
  // (a presentation without credentials does not deserialise)
  m.insert("verifiableCredential".into(), json!(["aaa.bbb.ccc"]));
  if k >= 1 {
    m.insert("verifiableCredential".into(), json!(["aaa.bbb.ccc", "ddd.eee.fff"]));
  }
  if k >= 2 {
    m.insert("verifiableCredential".into(), json!(["aaa.bbb.ccc", "ddd.eee.fff", "g.h.i"]));
    m.insert("type".into(), json!(["VerifiablePresentation", "X"]));
    m.insert("refreshService".into(), json!({"id": "https://e.x/refresh", "type": "R"}));
    m.insert("termsOfUse".into(), json!({"type": "P"}));
  }
  if k == 3 {
    m.insert("proof".into(), json!({"type": "Ed25519Signature2018", "proofValue": "zzz"}));
    m.insert("extra".into(), json!({"x": [1]}));
  }
  if k == 4 {
    // a presentation holding no credential at all (it cannot be read from JSON, only built: `penc` empties the list)
    let mut m = Map::new();
    m.insert("@context".into(), json!("https://www.w3.org/2018/credentials/v1"));
    m.insert("type".into(), json!("VerifiablePresentation"));
    m.insert("verifiableCredential".into(), json!([]));
    return m;
  }
  m
}
const NPREST: u32 = 5;

fn kv(t: &str) -> HashMap<&str, &str> {
  t.split(';').filter_map(|p| p.split_once('=')).collect()
}
fn oint(m: &HashMap<&str, &str>, k: &str) -> Option<Option<i64>> {
  match m.get(k) {
    None => Some(None),
    Some(&"~") => Some(None),
    Some(v) => v.parse().ok().map(Some),
  }
}
fn did_i(n: i64) -> String {
  format!("did:ex:i{}", n)
}
fn issuer_val(t: &str) -> Option<Value> {
  if let Some(n) = t.strip_prefix('u') {
    Some(json!(did_i(n.parse().ok()?)))
  } else if let Some(r) = t.strip_prefix('o') {
    let (n, p) = r.split_once('.')?;
    Some(json!({"id": did_i(n.parse().ok()?), "name": format!("p{}", p)}))
  } else {
    None
  }
}
fn show_issuer(v: &Value) -> String {
  match v {
    Value::String(s) => format!("u{}", s.trim_start_matches("did:ex:i")),
    Value::Object(o) => format!(
      "o{}.{}",
      o.get("id").and_then(|x| x.as_str()).unwrap_or("?").trim_start_matches("did:ex:i"),
      o.get("name").and_then(|x| x.as_str()).unwrap_or("?").trim_start_matches('p')
    ),
    _ => "?".into(),
  }
}
fn cid(n: i64) -> String {
  format!("https://e.x/c/{}", n)
}
fn sid(n: i64) -> String {
  format!("did:ex:s{}", n)
}
fn show_url(v: Option<&Value>, prefix: &str) -> String {
  match v.and_then(|x| x.as_str()) {
    None => "~".into(),
    Some(s) => s.strip_prefix(prefix).unwrap_or("?").to_string(),
  }
}
fn show_oint(v: Option<&Value>) -> String {
  match v {
    None => "~".into(),
    Some(x) => x.as_i64().map(|n| n.to_string()).unwrap_or("?".into()),
  }
}
fn show_ts(v: Option<&Value>) -> String {
  match v.and_then(|x| x.as_str()) {
    None => "~".into(),
    Some(s) => Timestamp::parse(s).map(|t| t.to_unix().to_string()).unwrap_or("?".into()),
  }
}
fn rfc(u: i64) -> Option<String> {
  Timestamp::from_unix(u).ok().map(|t| t.to_rfc3339())
}
fn issuer_docs() -> Vec<CoreDocument> {
  (0..6).map(|n| simple_doc(&did_i(n), &[n as u64 + 10])).collect()
}
fn header_for(issuer: &Value) -> (String, u64) {
  let did = match issuer {
    Value::String(s) => s.clone(),
    Value::Object(o) => o.get("id").and_then(|x| x.as_str()).unwrap_or("did:ex:i0").to_string(),
    _ => "did:ex:i0".into(),
  };
  let n: u64 = did.trim_start_matches("did:ex:i").parse().unwrap_or(0);
  (format!(r#"{{"alg":"EdDSA","kid":"{}#k0"}}"#, did), n + 10)
}

/// which REST combination a `vc` / credential object (minus the registered members) is
fn rest_index(obj: &Map<String, Value>, table: &dyn Fn(u32) -> Map<String, Value>, n: u32, strip: &[&str]) -> String {
  let mut o = obj.clone();
  for k in strip {
    o.remove(*k);
  }
  if let Some(Value::Object(s)) = o.get_mut("credentialSubject") {
    s.remove("id");
  }
  // a presentation without credentials writes no `verifiableCredential` member in its own JSON and an empty array inside `vp`
  let norm = |mut m: Map<String, Value>| -> Map<String, Value> {
    if m.get("verifiableCredential").and_then(|v| v.as_array()).map(|a| a.is_empty()).unwrap_or(false) {
      m.remove("verifiableCredential");
    }
    m
  };
  let o = norm(o);
  for k in 0..n {
    if Value::Object(norm(table(k))) == Value::Object(o.clone()) {
      return k.to_string();
    }
  }
  "?".into()
}

fn cust_val(t: Option<&&str>) -> Option<Object> {
  match t {
    None | Some(&"~") => None,
    Some(n) => {
      let mut o = Object::new();
      o.insert(format!("c{}", n), json!(n.parse::<i64>().unwrap_or(0)));
      Some(o)
    }
  }
}
fn show_keys(keys: Vec<String>) -> String {
  if keys.is_empty() {
    "~".into()
  } else {
    keys.iter().map(|k| k.trim_start_matches('c').to_string()).collect::<Vec<_>>().join("+")
  }
}
fn show_cust(o: Option<&Map<String, Value>>) -> String {
  show_keys(o.map(|m| m.keys().cloned().collect()).unwrap_or_default())
}
fn show_cust_obj(o: Option<&Object>) -> String {
  show_keys(o.map(|m| m.keys().cloned().collect()).unwrap_or_default())
}

fn cred_err(e: &JwtValidationError) -> String {
  let s = format!("{:?}", e);
  let k = if s.contains("inconsistent issuer") {
    "issuer"
  } else if s.contains("inconsistent issuanceDate") {
    "issuanceDate"
  } else if s.contains("inconsistent credential expirationDate") {
    "expirationDate"
  } else if s.contains("inconsistent credential id") {
    "id"
  } else if s.contains("expected identifier in sub") {
    "subjectMissing"
  } else if s.contains("identifiers do not match") {
    "subjectMismatch"
  } else if s.contains("TimestampConversionError") {
    "timestamp"
  } else if s.contains("inconsistent presentation id") {
    "id"
  } else if s.contains("inconsistent presentation holder") {
    "holder"
  } else if s.contains("JwtClaimsSetDeserializationError") {
    "json"
  } else {
    return format!("err:?{}", s.chars().take(80).collect::<String>());
  };
  format!("err:{}", k)
}

fn show_cred(c: &Credential) -> String {
  let v: Value = serde_json::from_str(&c.to_json().unwrap_or_default()).unwrap_or(Value::Null);
  let o = v.as_object().cloned().unwrap_or_default();
  format!(
    "id={};iss={};nbf={};exp={};sub={};rest={}",
    show_url(o.get("id"), "https://e.x/c/"),
    o.get("issuer").map(show_issuer).unwrap_or("?".into()),
    show_ts(o.get("issuanceDate")),
    show_ts(o.get("expirationDate")),
    show_url(o.get("credentialSubject").and_then(|s| s.get("id")), "did:ex:s"),
    rest_index(&o, &rest_members, NREST, &["id", "issuer", "issuanceDate", "expirationDate"])
  )
}

fn enc(t: &str) -> String {
  let m = kv(t);
  let (id, nbf, exp, sub, rest) = match (oint(&m, "id"), oint(&m, "nbf"), oint(&m, "exp"), oint(&m, "sub"), oint(&m, "rest")) {
    (Some(a), Some(Some(b)), Some(c), Some(d), Some(Some(e))) => (a, b, c, d, e),
    _ => return "bad-request".into(),
  };
  let issuer = match m.get("iss").and_then(|x| issuer_val(x)) {
    Some(v) => v,
    None => return "bad-request".into(),
  };
  let mut cj = rest_members(rest as u32);
  if let Some(n) = id {
    cj.insert("id".into(), json!(cid(n)));
  }
  cj.insert("issuer".into(), issuer.clone());
  match rfc(nbf) {
    Some(s) => cj.insert("issuanceDate".into(), json!(s)),
    None => return "bad-request".into(),
  };
  if let Some(e) = exp {
    match rfc(e) {
      Some(s) => cj.insert("expirationDate".into(), json!(s)),
      None => return "bad-request".into(),
    };
  }
  if let Some(s) = sub {
    if let Some(Value::Object(o)) = cj.get_mut("credentialSubject") {
      o.insert("id".into(), json!(sid(s)));
    }
  }
  let cred: Credential = match Credential::from_json_value(Value::Object(cj.clone())) {
    Ok(c) => c,
    Err(_) => return "bad-request".into(),
  };
  let custom = cust_val(m.get("cust"));
  let claims_s = match cred.serialize_jwt(custom.clone()) {
    Ok(s) => s,
    Err(e) => return format!("err:serialize:{:?}", e),
  };
  let cl: Value = serde_json::from_str(&claims_s).unwrap_or(Value::Null);
  let o = cl.as_object().cloned().unwrap_or_default();
  let vc = o.get("vc").and_then(|v| v.as_object()).cloned().unwrap_or_default();
  let known = ["exp", "iss", "iat", "nbf", "jti", "sub", "vc"];
  let cust: Map<String, Value> = o.iter().filter(|(k, _)| !known.contains(&k.as_str())).map(|(k, v)| (k.clone(), v.clone())).collect();
  let mut line = format!(
    "exp={};iss={};iat={};nbf={};jti={};sub={};vid={};viss={};vnbf={};vexp={};vsub={};rest={};cust={}",
    show_oint(o.get("exp")),
    o.get("iss").map(show_issuer).unwrap_or("?".into()),
    show_oint(o.get("iat")),
    show_oint(o.get("nbf")),
    show_url(o.get("jti"), "https://e.x/c/"),
    show_url(o.get("sub"), "did:ex:s"),
    show_url(vc.get("id"), "https://e.x/c/"),
    vc.get("issuer").map(show_issuer).unwrap_or("~".into()),
    show_ts(vc.get("issuanceDate")),
    show_ts(vc.get("expirationDate")),
    show_url(vc.get("credentialSubject").and_then(|s| s.get("id")), "did:ex:s"),
    rest_index(&vc, &rest_members, NREST, &["id", "issuer", "issuanceDate", "expirationDate"]),
    show_cust(Some(&cust))
  );
  // back through the validator
  let (hdr, key) = header_for(&issuer);
  let jwt = Jwt::new(sign_compact(&hdr, &claims_s, key));
  let v = JwtCredentialValidator::with_signature_verifier(ToyVerifier);
  let mut fail = None;
  match v.verify_signature::<CoreDocument, Object>(&jwt, &issuer_docs(), &JwsVerificationOptions::default()) {
    Ok(d) => {
      line += " rt:ok";
      if d.credential != cred {
        fail = Some(format!("roundtrip-not-equal:decoded credential {} differs from the encoded one", d.credential.to_json().unwrap_or_default()));
      } else if d.custom_claims.clone().filter(|c| !c.is_empty()) != custom {
        // (an absent custom-claims object reads back as an empty one: not a difference in content)
        fail = Some(format!("roundtrip-not-equal:custom claims differ: {:?} vs {:?}", d.custom_claims, custom));
      }
    }
    Err(e) => {
      line += &format!(" rt:{}", cred_err(&e));
      fail = Some(format!("roundtrip-not-equal:the library's own claims set is refused: {:?}", e));
    }
  }
  match fail {
    Some(f) => format!("{}\t#FAIL:{}", line, f),
    None => line,
  }
}

/// credentials whose subject is held as an ARRAY (0, 1 or 2 elements; what reading `"credentialSubject": [..]` gives):
/// converting to claims either is refused or the claims convert back to an equal credential.  Implementation only.
fn encm(t: &str) -> String {
  let m = kv(t);
  let (Some(Some(arity)), Some(Some(rest)), Some(sub)) = (oint(&m, "n"), oint(&m, "rest"), oint(&m, "sub")) else { return "bad-request".into() };
  let mut cj = rest_members(rest as u32);
  cj.insert("issuer".into(), json!(did_i(1)));
  cj.insert("issuanceDate".into(), json!(rfc(1262304000).unwrap()));
  let one = cj.get("credentialSubject").cloned().unwrap_or(json!({}));
  let subjects: Vec<Value> = (0..arity)
    .map(|i| {
      let mut s = one.clone();
      if let (Some(n), Value::Object(o)) = (sub, &mut s) {
        o.insert("id".into(), json!(sid(n + i)));
      } else if let Value::Object(o) = &mut s {
        o.insert("k".into(), json!(i));
      }
      s
    })
    .collect();
  cj.insert("credentialSubject".into(), Value::Array(subjects));
  let cred: Credential = match Credential::from_json_value(Value::Object(cj)) {
    Ok(c) => c,
    Err(_) => return "u:not-a-credential".into(),
  };
  let claims_s = match cred.serialize_jwt(None) {
    Ok(s) => s,
    Err(_) => return "u:refused".into(),
  };
  let issuer = json!(did_i(1));
  let (hdr, key) = header_for(&issuer);
  let jwt = Jwt::new(sign_compact(&hdr, &claims_s, key));
  let v = JwtCredentialValidator::with_signature_verifier(ToyVerifier);
  match v.verify_signature::<CoreDocument, Object>(&jwt, &issuer_docs(), &JwsVerificationOptions::default()) {
    Ok(d) if d.credential == cred => "u:ok".into(),
    Ok(d) => format!("u:ok\t#FAIL:roundtrip-not-equal:a credential whose subject is an array of {} converts to claims that convert back to {}", arity, d.credential.to_json().unwrap_or_default()),
    Err(e) => format!("u:ok\t#FAIL:roundtrip-not-equal:the library's own claims set is refused: {:?}", e),
  }
}

fn dec(t: &str) -> String {
  let m = kv(t);
  let g = |k: &str| oint(&m, k);
  let (exp, iat, nbf, jti, sub, vid, vnbf, vexp, vsub, rest) =
    match (g("exp"), g("iat"), g("nbf"), g("jti"), g("sub"), g("vid"), g("vnbf"), g("vexp"), g("vsub"), g("rest")) {
      (Some(a), Some(b), Some(c), Some(d), Some(e), Some(f), Some(h), Some(i), Some(j), Some(Some(k))) => (a, b, c, d, e, f, h, i, j, k),
      _ => return "bad-request".into(),
    };
  let issuer = match m.get("iss").and_then(|x| issuer_val(x)) {
    Some(v) => v,
    None => return "bad-request".into(),
  };
  let viss = match m.get("viss") {
    None | Some(&"~") => None,
    Some(x) => match issuer_val(x) {
      Some(v) => Some(v),
      None => return "bad-request".into(),
    },
  };
  let mut vc = rest_members(rest as u32);
  if let Some(n) = vid {
    vc.insert("id".into(), json!(cid(n)));
  }
  if let Some(v) = viss {
    vc.insert("issuer".into(), v);
  }
  if let Some(u) = vnbf {
    match rfc(u) {
      Some(s) => vc.insert("issuanceDate".into(), json!(s)),
      None => return "bad-request".into(),
    };
  }
  if let Some(u) = vexp {
    match rfc(u) {
      Some(s) => vc.insert("expirationDate".into(), json!(s)),
      None => return "bad-request".into(),
    };
  }
  if let Some(s) = vsub {
    if let Some(Value::Object(o)) = vc.get_mut("credentialSubject") {
      o.insert("id".into(), json!(sid(s)));
    }
  }
  let mut cl = Map::new();
  if let Some(e) = exp {
    cl.insert("exp".into(), json!(e));
  }
  cl.insert("iss".into(), issuer.clone());
  if let Some(e) = iat {
    cl.insert("iat".into(), json!(e));
  }
  if let Some(e) = nbf {
    cl.insert("nbf".into(), json!(e));
  }
  if let Some(n) = jti {
    cl.insert("jti".into(), json!(cid(n)));
  }
  if let Some(n) = sub {
    cl.insert("sub".into(), json!(sid(n)));
  }
  cl.insert("vc".into(), Value::Object(vc));
  if let Some(c) = cust_val(m.get("cust")) {
    for (k, v) in c {
      cl.insert(k, v);
    }
  }
  let claims_s = Value::Object(cl).to_string();
  let (hdr, key) = header_for(&issuer);
  let jwt = Jwt::new(sign_compact(&hdr, &claims_s, key));
  let v = JwtCredentialValidator::with_signature_verifier(ToyVerifier);
  match v.verify_signature::<CoreDocument, Object>(&jwt, &issuer_docs(), &JwsVerificationOptions::default()) {
    Ok(d) => format!("ok:{};cust={}", show_cred(&d.credential), show_cust_obj(d.custom_claims.as_ref())),
    Err(e) => cred_err(&e),
  }
}

fn popts() -> JwtPresentationValidationOptions {
  JwtPresentationValidationOptions::default()
    .earliest_expiry_date(Timestamp::from_unix(MIN).unwrap())
    .latest_issuance_date(Timestamp::from_unix(MAX).unwrap())
}

fn show_pres(p: &Presentation<Jwt>) -> String {
  let v: Value = serde_json::from_str(&p.to_json().unwrap_or_default()).unwrap_or(Value::Null);
  let o = v.as_object().cloned().unwrap_or_default();
  format!(
    "id={};holder={};rest={}",
    show_url(o.get("id"), "https://e.x/c/"),
    show_url(o.get("holder"), "did:ex:i"),
    rest_index(&o, &prest_members, NPREST, &["id", "holder"])
  )
}

fn show_decoded(d: &DecodedJwtPresentation<Jwt>) -> String {
  format!(
    "ok:{}|exp={};nbf={};aud={};cust={}",
    show_pres(&d.presentation),
    d.expiration_date.map(|t| t.to_unix().to_string()).unwrap_or("~".into()),
    d.issuance_date.map(|t| t.to_unix().to_string()).unwrap_or("~".into()),
    d.aud.as_ref().map(|u| u.as_str().trim_start_matches("https://e.x/a/").to_string()).unwrap_or("~".into()),
    show_cust_obj(d.custom_claims.as_ref())
  )
}

fn pres_err(e: &identity_credential::validator::CompoundJwtPresentationValidationError) -> String {
  match e.presentation_validation_errors.first() {
    Some(x) => {
      let s = format!("{:?}", x);
      if s.contains("inconsistent presentation id") {
        "err:id".into()
      } else if s.contains("inconsistent presentation holder") {
        "err:holder".into()
      } else if s.contains("InvalidTimestamp") || s.contains("TimestampConversionError") {
        "err:timestamp".into()
      } else if s.contains("JwtClaimsSetDeserializationError") {
        "err:json".into()
      } else {
        format!("err:?{}", s.chars().take(80).collect::<String>())
      }
    }
    None => "err:?".into(),
  }
}

fn penc(t: &str) -> String {
  let m = kv(t);
  let g = |k: &str| oint(&m, k);
  let (id, holder, rest, exp, nbf, aud) = match (g("id"), g("holder"), g("rest"), g("exp"), g("nbf"), g("aud")) {
    (Some(a), Some(Some(b)), Some(Some(c)), Some(d), Some(e), Some(f)) => (a, b, c, d, e, f),
    _ => return "bad-request".into(),
  };
  let mut pj = prest_members(if rest == 4 { 0 } else { rest as u32 });
  if let Some(n) = id {
    pj.insert("id".into(), json!(cid(n)));
  }
  pj.insert("holder".into(), json!(did_i(holder)));
  let mut pres: Presentation<Jwt> = match Presentation::from_json_value(Value::Object(pj)) {
    Ok(p) => p,
    Err(e) => return format!("bad-request:{:?}", e),
  };
  if rest == 4 {
    pres.verifiable_credential.clear();
  }
  let ts = |u: Option<i64>| -> Option<Option<Timestamp>> {
    match u {
      None => Some(None),
      Some(x) => Timestamp::from_unix(x).ok().map(Some),
    }
  };
  let (te, tn) = match (ts(exp), ts(nbf)) {
    (Some(a), Some(b)) => (a, b),
    _ => return "bad-request".into(),
  };
  let custom = cust_val(m.get("cust"));
  let opts = JwtPresentationOptions {
    expiration_date: te,
    issuance_date: tn,
    audience: aud.map(|a| Url::parse(format!("https://e.x/a/{}", a)).unwrap()),
    custom_claims: custom.clone(),
  };
  let claims_s = match pres.serialize_jwt(&opts) {
    Ok(s) => s,
    Err(e) => return format!("err:serialize:{:?}", e),
  };
  let cl: Value = serde_json::from_str(&claims_s).unwrap_or(Value::Null);
  let o = cl.as_object().cloned().unwrap_or_default();
  let vp = o.get("vp").and_then(|v| v.as_object()).cloned().unwrap_or_default();
  let known = ["exp", "iss", "iat", "nbf", "jti", "aud", "vp"];
  let cust: Map<String, Value> = o.iter().filter(|(k, _)| !known.contains(&k.as_str())).map(|(k, v)| (k.clone(), v.clone())).collect();
  let mut line = format!(
    "exp={};iss={};iat={};nbf={};jti={};aud={};vid={};vholder={};rest={};cust={}",
    show_oint(o.get("exp")),
    show_url(o.get("iss"), "did:ex:i"),
    show_oint(o.get("iat")),
    show_oint(o.get("nbf")),
    show_url(o.get("jti"), "https://e.x/c/"),
    show_url(o.get("aud"), "https://e.x/a/"),
    show_url(vp.get("id"), "https://e.x/c/"),
    show_url(vp.get("holder"), "did:ex:i"),
    rest_index(&vp, &prest_members, NPREST, &["id", "holder"]),
    show_cust(Some(&cust))
  );
  let hdr = format!(r#"{{"alg":"EdDSA","kid":"{}#k0"}}"#, did_i(holder));
  let jwt = Jwt::new(sign_compact(&hdr, &claims_s, holder as u64 + 10));
  let doc = simple_doc(&did_i(holder), &[holder as u64 + 10]);
  let v = JwtPresentationValidator::with_signature_verifier(ToyVerifier);
  let mut fail = None;
  match v.validate::<CoreDocument, Jwt, Object>(&jwt, &doc, &popts()) {
    Ok(d) => {
      line += " rt:ok";
      if d.presentation != pres {
        fail = Some("roundtrip-not-equal:decoded presentation differs from the encoded one".to_string());
      } else if d.expiration_date != te || d.issuance_date != tn || d.aud != opts.audience || d.custom_claims.clone().filter(|c| !c.is_empty()) != custom {
        fail = Some("roundtrip-not-equal:expiry / issuance / audience / custom claims differ".to_string());
      }
    }
    Err(e) => {
      line += &format!(" rt:{}", pres_err(&e));
      fail = Some(format!("roundtrip-not-equal:the library's own claims set is refused: {:?}", e));
    }
  }
  match fail {
    Some(f) => format!("{}\t#FAIL:{}", line, f),
    None => line,
  }
}

fn pdec(t: &str) -> String {
  let m = kv(t);
  let g = |k: &str| oint(&m, k);
  let (exp, iss, iat, nbf, jti, aud, vid, vholder, rest) = match (g("exp"), g("iss"), g("iat"), g("nbf"), g("jti"), g("aud"), g("vid"), g("vholder"), g("rest")) {
    (Some(a), Some(Some(b)), Some(c), Some(d), Some(e), Some(f), Some(h), Some(i), Some(Some(j))) => (a, b, c, d, e, f, h, i, j),
    _ => return "bad-request".into(),
  };
  let mut vp = prest_members(rest as u32);
  if let Some(n) = vid {
    vp.insert("id".into(), json!(cid(n)));
  }
  if let Some(n) = vholder {
    vp.insert("holder".into(), json!(did_i(n)));
  }
  let mut cl = Map::new();
  if let Some(e) = exp {
    cl.insert("exp".into(), json!(e));
  }
  cl.insert("iss".into(), json!(did_i(iss)));
  if let Some(e) = iat {
    cl.insert("iat".into(), json!(e));
  }
  if let Some(e) = nbf {
    cl.insert("nbf".into(), json!(e));
  }
  if let Some(n) = jti {
    cl.insert("jti".into(), json!(cid(n)));
  }
  if let Some(n) = aud {
    cl.insert("aud".into(), json!(format!("https://e.x/a/{}", n)));
  }
  cl.insert("vp".into(), Value::Object(vp));
  if let Some(c) = cust_val(m.get("cust")) {
    for (k, v) in c {
      cl.insert(k, v);
    }
  }
  let claims_s = Value::Object(cl).to_string();
  let hdr = format!(r#"{{"alg":"EdDSA","kid":"{}#k0"}}"#, did_i(iss));
  let jwt = Jwt::new(sign_compact(&hdr, &claims_s, iss as u64 + 10));
  let doc = simple_doc(&did_i(iss), &[iss as u64 + 10]);
  let v = JwtPresentationValidator::with_signature_verifier(ToyVerifier);
  match v.validate::<CoreDocument, Jwt, Object>(&jwt, &doc, &popts()) {
    Ok(d) => show_decoded(&d),
    Err(e) => pres_err(&e),
  }
}

pub fn run(args: &[&str]) -> String {
  match args {
    ["enc", t] => enc(t),
    ["encm", t] => encm(t),
    ["dec", t] => dec(t),
    ["penc", t] => penc(t),
    ["pdec", t] => pdec(t),
    _ => "bad-request".into(),
  }
}

// ---------------------------------------------------------------------------------------------------------
fn o(x: Option<i64>) -> String {
  x.map(|v| v.to_string()).unwrap_or("~".into())
}

pub fn gen(thorough: bool, seed: u64, out: &mut impl Write) {
  let mut r = Rng::new(seed ^ 0xC07);
  let dates = [MIN, MIN + 1, -1, 0, 1, 1262304000, 1893456000, MAX - 1, MAX];
  let bad_dates = [MIN - 1, MAX + 1, i64::MIN, i64::MAX, -62167219201 - 86400, 253402300800 + 86400];
  let issuers = ["u0", "u3", "o1.1", "o2.7"];
  // (a) encode + round trip: every optional-member combination x issuer form x presence of id / exp / sub / custom,
  //     boundary timestamps
  for rest in 0..NREST {
    for iss in issuers {
      for mask in 0..16u32 {
        let nbf = *r.pick(&dates);
        let exp = if mask & 1 != 0 { Some(*r.pick(&dates)) } else { None };
        writeln!(
          out,
          "C07 enc id={};iss={};nbf={};exp={};sub={};rest={};cust={}",
          o(if mask & 2 != 0 { Some(r.below(5) as i64) } else { None }),
          iss,
          nbf,
          o(exp),
          o(if mask & 4 != 0 { Some(r.below(5) as i64) } else { None }),
          rest,
          o(if mask & 8 != 0 { Some(r.below(5) as i64) } else { None })
        )
        .unwrap();
      }
    }
  }
  for rest in 0..NREST {
    for n in 0..3 {
      for sub in ["~", "2"] {
        writeln!(out, "C07 encm n={};rest={};sub={}", n, rest, sub).unwrap();
      }
    }
  }
  for d in dates {
    for e in dates {
      writeln!(out, "C07 enc id=1;iss=u1;nbf={};exp={};sub=2;rest=1;cust=~", d, e).unwrap();
    }
  }
  // (b) decode: each duplicated member absent / equal / different, against each registered claim absent / present
  let tri = |base: Option<i64>, k: u32| -> Option<i64> {
    match k {
      0 => None,
      1 => base.or(Some(1)),
      _ => Some(base.unwrap_or(1) + 1),
    }
  };
  for jti in [None, Some(1i64)] {
    for sub in [None, Some(2i64)] {
      for exp in [None, Some(1893456000i64)] {
        for a in 0..3 {
          for b in 0..3 {
            for c in 0..3 {
              for d in 0..3 {
                for e in 0..3 {
                  let viss = match a {
                    0 => "~",
                    1 => "o1.1",
                    _ => *r.pick(&["u1", "o1.2", "o2.1", "u2"]),
                  };
                  writeln!(
                    out,
                    "C07 dec exp={};iss=o1.1;iat=~;nbf=1262304000;jti={};sub={};vid={};viss={};vnbf={};vexp={};vsub={};rest={};cust=~",
                    o(exp),
                    o(jti),
                    o(sub),
                    o(tri(jti, b)),
                    viss,
                    o(tri(Some(1262304000), c)),
                    o(tri(exp, d)),
                    o(tri(sub, e)),
                    r.below(NREST as u64)
                  )
                  .unwrap();
                }
              }
            }
          }
        }
      }
    }
  }
  // iat / nbf precedence and numeric dates at and beyond the boundaries
  let all: Vec<i64> = dates.iter().chain(bad_dates.iter()).cloned().collect();
  for iat in [None].into_iter().chain(all.iter().map(|x| Some(*x))) {
    for nbf in [None].into_iter().chain(all.iter().map(|x| Some(*x))) {
      writeln!(out, "C07 dec exp=~;iss=u1;iat={};nbf={};jti=1;sub=~;vid=~;viss=~;vnbf=~;vexp=~;vsub=~;rest=0;cust=3", o(iat), o(nbf)).unwrap();
      writeln!(out, "C07 dec exp=~;iss=u1;iat={};nbf={};jti=1;sub=~;vid=~;viss=~;vnbf=1262304000;vexp=~;vsub=~;rest=0;cust=~", o(iat), o(nbf)).unwrap();
    }
  }
  for exp in all.iter() {
    for vexp in [None, Some(1893456000i64), Some(MAX), Some(MIN)] {
      writeln!(out, "C07 dec exp={};iss=u1;iat=~;nbf=0;jti=~;sub=~;vid=~;viss=~;vnbf=~;vexp={};vsub=~;rest=2;cust=~", exp, o(vexp)).unwrap();
    }
  }
  // random claims sets
  for _ in 0..(if thorough { 20000 } else { 1500 }) {
    let pick = |r: &mut Rng| -> Option<i64> {
      if r.chance(1, 3) {
        None
      } else if r.chance(1, 6) {
        Some(*r.pick(&bad_dates))
      } else {
        Some(*r.pick(&dates))
      }
    };
    let small = |r: &mut Rng| -> Option<i64> { if r.chance(1, 2) { None } else { Some(r.below(3) as i64) } };
    let vd = |r: &mut Rng| -> Option<i64> { if r.chance(1, 2) { None } else { Some(*r.pick(&dates)) } };
    writeln!(
      out,
      "C07 dec exp={};iss={};iat={};nbf={};jti={};sub={};vid={};viss={};vnbf={};vexp={};vsub={};rest={};cust={}",
      o(pick(&mut r)),
      r.pick(&issuers),
      o(pick(&mut r)),
      o(pick(&mut r)),
      o(small(&mut r)),
      o(small(&mut r)),
      o(small(&mut r)),
      if r.chance(1, 2) { "~" } else { *r.pick(&issuers) },
      o(vd(&mut r)),
      o(vd(&mut r)),
      o(small(&mut r)),
      r.below(NREST as u64),
      o(small(&mut r))
    )
    .unwrap();
  }
  // (c) presentations
  for rest in 0..NPREST {
    for mask in 0..32u32 {
      writeln!(
        out,
        "C07 penc id={};holder={};rest={};exp={};nbf={};aud={};cust={}",
        o(if mask & 1 != 0 { Some(r.below(4) as i64) } else { None }),
        r.below(5),
        rest,
        o(if mask & 2 != 0 { Some(*r.pick(&dates)) } else { None }),
        o(if mask & 4 != 0 { Some(*r.pick(&dates)) } else { None }),
        o(if mask & 8 != 0 { Some(r.below(4) as i64) } else { None }),
        o(if mask & 16 != 0 { Some(r.below(4) as i64) } else { None })
      )
      .unwrap();
    }
  }
  for jti in [None, Some(1i64)] {
    for a in 0..3 {
      for b in 0..3 {
        for exp in [None, Some(MAX), Some(MAX + 1), Some(MIN - 1)] {
          for nbf in [None, Some(0i64), Some(MAX + 1)] {
            for iat in [None, Some(5i64), Some(MIN - 1)] {
              writeln!(
                out,
                "C07 pdec exp={};iss=2;iat={};nbf={};jti={};aud={};vid={};vholder={};rest={};cust={}",
                o(exp),
                o(iat),
                o(nbf),
                o(jti),
                o(if r.chance(1, 2) { Some(1) } else { None }),
                o(tri(jti, a)),
                o(match b {
                  0 => None,
                  1 => Some(2),
                  _ => Some(3),
                }),
                r.below(NPREST as u64),
                o(if r.chance(1, 3) { Some(2) } else { None })
              )
              .unwrap();
            }
          }
        }
      }
    }
  }
}
