//! Shared helpers for the JWT-level properties (C07, C02, C03, C16): a toy signature scheme behind the library's
//! `JwsVerifier` hook (the signature scheme is a parameter of the models), issuer documents, compact JWS assembly.
use crate::c01::toy_mac;
use identity_core::convert::FromJson;
use identity_document::document::CoreDocument;
use identity_verification::jose::jwk::Jwk;
use identity_verification::jose::jws::JwsVerifier;
use identity_verification::jose::jws::SignatureVerificationError;
use identity_verification::jose::jws::SignatureVerificationErrorKind;
use identity_verification::jose::jws::VerificationInput;

pub fn b64(b: &[u8]) -> String {
  const T: &[u8] = b"ABCDEFGHIJKLMNOPQRSTUVWXYZabcdefghijklmnopqrstuvwxyz0123456789-_";
  let mut s = String::new();
  for ch in b.chunks(3) {
    let n = (ch[0] as u32) << 16 | (*ch.get(1).unwrap_or(&0) as u32) << 8 | *ch.get(2).unwrap_or(&0) as u32;
    s.push(T[(n >> 18) as usize & 63] as char);
    s.push(T[(n >> 12) as usize & 63] as char);
    if ch.len() > 1 {
      s.push(T[(n >> 6) as usize & 63] as char);
    }
    if ch.len() > 2 {
      s.push(T[n as usize & 63] as char);
    }
  }
  s
}

/// public JWK number n: an OKP key whose `x` spells the number
pub fn toy_jwk_json(n: u64) -> String {
  format!(r#"{{"kty":"OKP","crv":"Ed25519","x":"{}"}}"#, b64(format!("key{}", n).as_bytes()))
}
pub fn toy_jwk(n: u64) -> Jwk {
  Jwk::from_json(&toy_jwk_json(n)).unwrap()
}
pub fn key_number(j: &Jwk) -> Option<u64> {
  let x = j.try_okp_params().ok()?.x.clone();
  for n in 0..64u64 {
    if b64(format!("key{}", n).as_bytes()) == x {
      return Some(n);
    }
  }
  None
}

/// accepts exactly `toy_mac(key number, signing input)`
pub struct ToyVerifier;
impl JwsVerifier for ToyVerifier {
  fn verify(&self, input: VerificationInput, public_key: &Jwk) -> Result<(), SignatureVerificationError> {
    let k = key_number(public_key).ok_or(SignatureVerificationError::new(SignatureVerificationErrorKind::UnsupportedKeyType))?;
    if input.decoded_signature.as_ref() == toy_mac(k, &input.signing_input).as_slice() {
      Ok(())
    } else {
      Err(SignatureVerificationError::new(SignatureVerificationErrorKind::InvalidSignature))
    }
  }
}

pub fn sign_compact(header_json: &str, claims_json: &str, key: u64) -> String {
  let si = format!("{}.{}", b64(header_json.as_bytes()), b64(claims_json.as_bytes()));
  let sig = toy_mac(key, si.as_bytes());
  format!("{}.{}", si, b64(&sig))
}

/// a document `did` with general-purpose methods `#k<i>` holding toy key `keys[i]`
pub fn simple_doc(did: &str, keys: &[u64]) -> CoreDocument {
  let ms: Vec<String> = keys
    .iter()
    .enumerate()
    .map(|(i, k)| format!(r#"{{"id":"{}#k{}","controller":"{}","type":"JsonWebKey2020","publicKeyJwk":{}}}"#, did, i, did, toy_jwk_json(*k)))
    .collect();
  CoreDocument::from_json(&format!(r#"{{"id":"{}","verificationMethod":[{}]}}"#, did, ms.join(","))).unwrap()
}
