import IdModel.Jose.Jws
import IdModel.Gen.C08
/-!
Model of the storage-backed signing call `JwkDocumentExt::create_jws` (and the two JWT wrappers) of
`identity_storage/src/storage/jwk_document_ext.rs` (property C08, second half): how the protected header is assembled
from `JwsSignatureOptions`, which compact encoder is used, and when the call refuses.  How the header is put together
is regenerated from the source (`IdModel.Gen.C08`): every clause of `createHeader` is guarded by the flag that says the
source still has that clause; where a flag is `false` the model yields a value that no request asks for, so that the
theorems of `Props/C08.lean` about the assembled header no longer check.

The key store is a parameter: `key` is the number of the key the method's JWK denotes, and the signature is made by
that key (contract of `JwkStorage::sign`, property C15).
-/
namespace IdModel.Jose
open IdModel IdModel.Gen.C08

/-- `JwsSignatureOptions` (text values are strings; `custom`: the names of the custom header parameters) -/
structure SigOpts where
  attachJwk : Bool := false
  b64 : Option Bool := none
  typ : Option String := none
  cty : Option String := none
  url : Option String := none
  nonce : Option String := none
  kid : Option String := none
  detached : Bool := false
  custom : List String := []
  deriving Repr, DecidableEq

/-- the protected header `create_jws` assembles, with its values -/
structure SigHdr where
  alg : Option String
  kid : Option String
  typ : Option String
  cty : Option String
  url : Option String
  nonce : Option String
  /-- the attached JWK, as the number of the key it denotes -/
  jwk : Option Nat
  b64 : Option Bool
  crit : Option (List String)
  custom : List String
  deriving Repr, DecidableEq

/-- a value the model yields where the source no longer has the clause the model was written for -/
def deviant : String := "\u0000model: clause not recognised in the source"

/-- the header block of `create_jws`; `alg`: the `alg` of the method's JWK, `methodId`: the method's id as a string,
`key`: the key the method's JWK denotes -/
def createHeader (alg methodId : String) (key : Nat) (o : SigOpts) : SigHdr :=
  { alg := if algFromMethodKey then some alg else none
    kid := if kidDefaultsToMethodId then some (o.kid.getD methodId) else some deviant
    typ := if typFromOptionOrDefault then some (o.typ.getD typDefault) else some deviant
    cty := if ctyCopied then o.cty else some deviant
    url := if urlCopied then o.url else some deviant
    nonce := if nonceCopied then o.nonce else some deviant
    jwk := if attachJwkAttachesMethodKey then (if o.attachJwk then some key else none) else some 0
    b64 := if b64FalseSetsCrit then (if o.b64 = some false then some false else none) else o.b64
    crit := if b64FalseSetsCrit then (if o.b64 = some false then some ["b64"] else none) else none
    custom := if customCopied && noOtherParameter then o.custom else deviant :: o.custom }

/-- what the header policy (C11) looks at -/
def SigHdr.toHdr (h : SigHdr) : Hdr :=
  { alg := h.alg
    b64 := h.b64
    crit := h.crit
    fields := (if h.jwk.isSome then ["jwk"] else []) ++ (if h.kid.isSome then ["kid"] else []) ++
      (if h.typ.isSome then ["typ"] else []) ++ (if h.cty.isSome then ["cty"] else []) ++
      (if h.url.isSome then ["url"] else []) ++ (if h.nonce.isSome then ["nonce"] else [])
    custom := h.custom }

/-- the compact encoding options `create_jws` derives from `detached_payload` -/
def sigCompactOpts (o : SigOpts) : CompactOpts :=
  if detachedOption then (if o.detached then .detached else .nonDetached .default) else .nonDetached .urlSafe

/-- `create_jws` after the method lookup: the encoder state (`none`: `EncodingError`) -/
def createJws (S : Hdr → Bytes) (payload : Bytes) (alg methodId : String) (key : Nat) (o : SigOpts) :
    Option CompactEnc :=
  compactNew S payload (createHeader alg methodId key o).toHdr (sigCompactOpts o)

/-- `create_credential_jwt` / `create_presentation_jwt`: the two refusals in front of `create_jws` -/
def createJwt (S : Hdr → Bytes) (payload : Bytes) (alg methodId : String) (key : Nat) (o : SigOpts) :
    Option CompactEnc :=
  if credentialJwtRefusesDetachedAndUnencoded && presentationJwtRefusesDetachedAndUnencoded then
    (if o.detached then none else if !(o.b64.getD true) then none else createJws S payload alg methodId key o)
  else createJws S payload alg methodId key o

end IdModel.Jose
