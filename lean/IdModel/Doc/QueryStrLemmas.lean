import IdModel.Doc.QueryStr
/-! Helper lemmas about `find` / `rfind` / the prefix test of the query-string model. -/
namespace IdModel.Doc.QueryStr

theorem find_none (c : Nat) : ∀ q, c ∉ q → find c q = none
  | [], _ => rfl
  | x :: r, h => by
    have hx : x ≠ c := fun e => h (e ▸ List.mem_cons_self)
    have hr : c ∉ r := fun m => h (List.mem_cons_of_mem _ m)
    simp [find, hx, find_none c r hr]

theorem find_append (c : Nat) (a r : List Nat) (h : c ∉ a) : find c (a ++ r) = (find c r).map (· + a.length) := by
  induction a with
  | nil => simp
  | cons x t ih =>
    have hx : x ≠ c := fun e => h (e ▸ List.mem_cons_self)
    have ht : c ∉ t := fun m => h (List.mem_cons_of_mem _ m)
    simp only [List.cons_append, find, beq_iff_eq, hx, if_false, ih ht, Option.map_map, List.length_cons]
    congr 1

theorem rfind_none (c : Nat) : ∀ q, c ∉ q → rfind c q = none
  | [], _ => rfl
  | x :: r, h => by
    have hx : x ≠ c := fun e => h (e ▸ List.mem_cons_self)
    have hr : c ∉ r := fun m => h (List.mem_cons_of_mem _ m)
    simp [rfind, hx, rfind_none c r hr]

theorem rfind_last (c : Nat) (a f : List Nat) (h : c ∉ f) : rfind c (a ++ c :: f) = some a.length := by
  induction a with
  | nil => simp [rfind, rfind_none c f h]
  | cons x t ih => simp [rfind, ih]

theorem prefix_head_ne_hash : ∀ f, isFull (cHash :: f) = false := by
  intro f; simp [isFull, Gen.C04.queryPrefix, cHash, List.isPrefixOf]

theorem isFull_append (D r : List Nat) (h : isFull D = true) : isFull (D ++ r) = true := by
  unfold isFull at *
  rw [List.isPrefixOf_iff_prefix] at *
  exact h.trans (List.prefix_append D r)

end IdModel.Doc.QueryStr
