//! C06 — RevocationBitmap2022 against the Lean model `IdModel.Bitmap`.
use crate::c01::b64_strict;
use crate::rng::{hex, unhex, Rng};
use identity_core::common::{Object, Url, Value};
use identity_core::convert::{Base, BaseEncoding};
use identity_credential::credential::{Credential, CredentialBuilder, Issuer, RevocationBitmapStatus, Status, Subject};
use identity_credential::revocation::{RevocationBitmap, RevocationDocumentExt};
use identity_credential::validator::{JwtCredentialValidatorUtils, StatusCheck};
use identity_did::{CoreDID, DIDUrl, DID};
use identity_document::document::CoreDocument;
use identity_document::service::{Service, ServiceEndpoint};
use std::io::Write;

const PATTERN: &str = "data:application/octet-stream;base64,";

fn nats(t: &str) -> Option<Vec<u32>> {
  if t == "-" {
    return Some(vec![]);
  }
  t.split(',').map(|x| x.parse().ok()).collect()
}

fn show_set(b: &RevocationBitmap, universe: &[u32]) -> String {
  let mut v: Vec<u32> = universe.iter().copied().filter(|i| b.is_revoked(*i)).collect();
  v.sort();
  v.dedup();
  if v.len() as u64 != b.len() {
    return format!("?len={}", b.len());
  }
  if v.is_empty() {
    "-".into()
  } else {
    v.iter().map(|x| x.to_string()).collect::<Vec<_>>().join(",")
  }
}

fn bitmap_of(is: &[u32]) -> RevocationBitmap {
  let mut b = RevocationBitmap::new();
  for i in is {
    b.revoke(*i);
  }
  b
}

fn did() -> CoreDID {
  CoreDID::parse("did:example:issuer").unwrap()
}

/// endpoint data string of a bitmap (through the public `to_service`)
fn endpoint_data(b: &RevocationBitmap) -> String {
  let svc = b.to_service(did().to_url().join("#rev").unwrap()).unwrap();
  let ServiceEndpoint::One(u) = svc.service_endpoint() else { panic!() };
  u.as_str().strip_prefix(PATTERN).unwrap().to_string()
}

fn service(types: &[String], endpoint: Option<&str>) -> Option<Service> {
  let ep: ServiceEndpoint = match endpoint {
    Some(u) => ServiceEndpoint::One(Url::parse(u).ok()?),
    None => ServiceEndpoint::Set(vec![Url::parse("https://a.example/").ok()?, Url::parse("https://b.example/").ok()?].try_into().ok()?),
  };
  let mut b = Service::builder(Object::new()).id(did().to_url().join("#rev").unwrap()).service_endpoint(ep);
  for t in types {
    b = b.type_(t.as_str());
  }
  b.build().ok()
}

pub fn run(args: &[&str]) -> String {
  let with = |obs: String, f: Option<String>| match f {
    Some(f) => format!("{}\t#FAIL:{}", obs, f),
    None => obs,
  };
  match args.first().copied() {
    // `big <blocks>`: one index in each of the first <blocks> 65536-blocks (up to all 65536 of them): encode into a service,
    // decode, compare; revoke one more through a fresh bitmap.  Reply `ok:<members>`.
    Some("big") if args.len() == 2 => {
      let Ok(blocks) = args[1].parse::<u64>() else { return "bad-request".into() };
      if blocks > 65536 {
        return "bad-request".into();
      }
      let mut b = RevocationBitmap::new();
      for k in 0..blocks {
        b.revoke((k * 65536 + (k % 7)) as u32);
      }
      let id = did().to_url().join("#rev").unwrap();
      let svc = match b.to_service(id) {
        Ok(s) => s,
        Err(_) => return with("err:encode".into(), Some("roundtrip-lost:to_service refuses a bitmap".into())),
      };
      match RevocationBitmap::try_from(&svc) {
        Ok(back) => with(format!("ok:{}", back.len()), if back != b { Some(format!("roundtrip-lost:a bitmap with one index in each of {} blocks does not decode to itself", blocks)) } else { None }),
        Err(e) => with("err:decode".into(), Some(format!("roundtrip-lost:the library does not decode its own endpoint for {} blocks: {}", blocks, e))),
      }
    }
    // `inst <start set> | <ops>`: ONE RevocationBitmap value obtained by decoding a service, changed by r:<i> / u:<i> calls on the
    // value itself, encoded again and decoded: members of the universe {0..12, 255, 70000}.  Reply `ok:<set>`.
    Some("inst") if args.len() >= 3 => {
      let Some(start) = nats(args[1]) else { return "bad-request".into() };
      let mut b0 = RevocationBitmap::new();
      for i in &start {
        b0.revoke(*i);
      }
      let id = did().to_url().join("#rev").unwrap();
      let Ok(svc) = b0.to_service(id.clone()) else { return "bad-request".into() };
      let Ok(mut b) = RevocationBitmap::try_from(&svc) else { return "err:decode".into() };
      for op in &args[3..] {
        let Some((k, v)) = op.split_once(':') else { return "bad-request".into() };
        let Ok(i) = v.parse::<u32>() else { return "bad-request".into() };
        match k {
          "r" => {
            b.revoke(i);
          }
          "u" => {
            b.unrevoke(i);
          }
          _ => return "bad-request".into(),
        }
      }
      let uni: Vec<u32> = (0..13).chain([255, 70000]).collect();
      let direct = show_set(&b, &uni);
      let Ok(svc2) = b.to_service(id) else { return "err:encode".into() };
      match RevocationBitmap::try_from(&svc2) {
        Ok(back) => {
          let after = show_set(&back, &uni);
          with(format!("ok:{}", after), if after != direct { Some(format!("roundtrip-lost:the value holds {} but its encoding decodes to {}", direct, after)) } else { None })
        }
        Err(_) => "err:decode".into(),
      }
    }
    Some("decode") if args.len() >= 3 => {
      let types: Option<Vec<String>> = if args[1] == "-" { Some(vec![]) } else { args[1].split(',').map(|h| unhex(h).and_then(|b| String::from_utf8(b).ok())).collect() };
      let Some(types) = types else { return "bad-request".into() };
      let url: Option<String> = if args[2] == "~" { None } else { match unhex(args[2]).and_then(|b| String::from_utf8(b).ok()) { Some(u) => Some(u), None => return "bad-request".into() } };
      // universe for printing: every index named in the tables
      let mut uni: Vec<u32> = vec![];
      let mut own: Option<Vec<u32>> = None;
      // the request is the legacy double-encoded form of this set: the property says it still decodes
      let mut legacy: Option<Vec<u32>> = None;
      for t in &args[3..] {
        let p: Vec<&str> = t.split('=').collect();
        if p.len() == 3 {
          if let Some(v) = nats(p[2]) {
            if p[0] == "Z" {
              uni.extend(v.iter());
            }
            if p[0] == "OWN" {
              own = Some(v.clone());
            }
            if p[0] == "LEG" {
              legacy = Some(v);
            }
          }
        }
      }
      let Some(svc) = service(&types, url.as_deref()) else { return "bad-request".into() };
      match std::panic::catch_unwind(|| RevocationBitmap::try_from(&svc)) {
        Err(_) => "panic\t#FAIL:panic:RevocationBitmap::try_from panicked".into(),
        Ok(Err(_)) => with(
          "err".into(),
          own.map(|_| "own-endpoint-does-not-decode:the library's own encoding of this bitmap is rejected".to_string()).or(legacy.map(|_| "legacy-endpoint-does-not-decode:an endpoint in the legacy double-encoded form is rejected".to_string())),
        ),
        Ok(Ok(b)) => {
          let s = show_set(&b, &uni);
          let f = own
            .and_then(|o| {
              let want = bitmap_of(&o);
              if want != b {
                Some("own-endpoint-decodes-differently:".to_string())
              } else {
                None
              }
            })
            .or(legacy.and_then(|o| if bitmap_of(&o) != b { Some("legacy-endpoint-decodes-differently:".to_string()) } else { None }));
          with(format!("ok:{}", s), f)
        }
      }
    }
    // `hist`: through CoreDocument (RevocationDocumentExt); `ihist`: the same history through IotaDocument's own methods
    Some(h @ ("hist" | "ihist")) if args.len() >= 2 => {
      let Some(start) = nats(args[1]) else { return "bad-request".into() };
      let iota = h == "ihist";
      let the_did: CoreDID = if iota { CoreDID::parse(format!("did:iota:0x{}", "ab".repeat(32))).unwrap() } else { did() };
      let mut doc = Hist::new(iota, &the_did);
      let sid = the_did.to_url().join("#rev").unwrap();
      doc.insert_service(bitmap_of(&start).to_service(sid.clone()).unwrap());
      // a second, untouched bitmap service and a plain service (frame)
      let other = the_did.to_url().join("#other").unwrap();
      doc.insert_service(bitmap_of(&[1, 2, 3]).to_service(other.clone()).unwrap());
      let mut shadow: std::collections::BTreeSet<u32> = start.iter().copied().collect();
      let mut touched: Vec<u32> = start.clone();
      let mut out = vec![];
      let mut fail: Option<String> = None;
      for op in &args[2..] {
        let p: Vec<&str> = op.split(':').collect();
        match p[0] {
          "rv" | "un" => {
            let Some(is) = p.get(1).and_then(|x| nats(x)) else { return "bad-request".into() };
            touched.extend(is.iter());
            let r = if p[0] == "rv" { doc.revoke(&sid, &is) } else { doc.unrevoke(&sid, &is) };
            match r {
              Ok(()) => {
                for i in &is {
                  if p[0] == "rv" {
                    shadow.insert(*i);
                  } else {
                    shadow.remove(i);
                  }
                }
                match doc.bitmap(&sid) {
                  Ok(b) => {
                    out.push(format!("ok:{}", show_set(&b, &touched)));
                    // exactly the requested indices changed: compare with the shadow set on touched + probes
                    let probes: Vec<u32> = touched.iter().copied().chain([0, 1, 7, 65535, 65536, 70000, u32::MAX]).collect();
                    for i in probes {
                      if b.is_revoked(i) != shadow.contains(&i) && fail.is_none() {
                        fail = Some(format!("membership-wrong:index {} after {}", i, op));
                      }
                    }
                    if b.len() != shadow.len() as u64 && fail.is_none() {
                      fail = Some(format!("membership-wrong:cardinality {} vs {} after {}", b.len(), shadow.len(), op));
                    }
                  }
                  Err(_) => {
                    out.push("ok:?".into());
                    fail = fail.or(Some(format!("own-endpoint-does-not-decode:after {}", op)));
                  }
                }
                match doc.bitmap(&other) {
                  Ok(b) if b == bitmap_of(&[1, 2, 3]) => {}
                  _ => fail = fail.or(Some("other-service-changed:".into())),
                }
              }
              Err(_) => {
                out.push("err".into());
                fail = fail.or(Some(format!("own-endpoint-does-not-decode:{} failed on a service written by the library", op)));
              }
            }
          }
          "q" => {
            let Some(i) = p.get(1).and_then(|x| x.parse::<u32>().ok()) else { return "bad-request".into() };
            match doc.bitmap(&sid) {
              Ok(b) => out.push(if b.is_revoked(i) { "1" } else { "0" }.to_string()),
              Err(_) => out.push("err".into()),
            }
          }
          _ => return "bad-request".into(),
        }
      }
      with(out.join(" "), fail)
    }
    Some("status") if args.len() == 8 => {
      let sc = match args[1] {
        "strict" => StatusCheck::Strict,
        "skipu" => StatusCheck::SkipUnsupported,
        "skipall" => StatusCheck::SkipAll,
        _ => return "bad-request".into(),
      };
      let issuer_did = did();
      let other_did = CoreDID::parse("did:example:other").unwrap();
      let mut cred: Credential = CredentialBuilder::default()
        .issuer(Issuer::Url(Url::parse(issuer_did.as_str()).unwrap()))
        .subject(Subject::with_id(Url::parse("did:example:subject").unwrap()))
        .build()
        .unwrap();
      // status entry
      if args[2] != "none" {
        let mut idurl = if args[5] == "1" { "did:example:issuer".to_string() } else { "https://example.com/not-a-did".to_string() };
        if args[4] != "-" {
          let qs: Vec<String> = args[4].split(',').map(|q| format!("index={}", q)).collect();
          idurl = format!("{}?{}", idurl, qs.join("&"));
        }
        idurl.push_str("#rev");
        let mut props = Object::new();
        match args[3] {
          "absent" => {}
          "notstring" => {
            props.insert("revocationBitmapIndex".into(), Value::from(5));
          }
          "nan" => {
            props.insert("revocationBitmapIndex".into(), Value::String("x1".into()));
          }
          n => {
            props.insert("revocationBitmapIndex".into(), Value::String(n.to_string()));
          }
        }
        let ty = if args[2] == "bitmap" { "RevocationBitmap2022" } else { "SomethingElse2020" };
        let Ok(u) = Url::parse(&idurl) else { return "bad-request".into() };
        cred.credential_status = Some(Status::new_with_properties(u, ty.to_string(), props));
      }
      // issuer documents
      let mut doc = CoreDocument::builder(Object::new()).id(if args[6] == "1" { issuer_did.clone() } else { other_did }).build().unwrap();
      let want_member: Option<bool>;
      if args[7] != "~" {
        let Some(is) = nats(args[7]) else { return "bad-request".into() };
        let sid = doc.id().to_url().join("#rev").unwrap();
        doc.insert_service(bitmap_of(&is).to_service(sid).unwrap()).unwrap();
        want_member = args[3].parse::<u32>().ok().map(|n| is.contains(&n));
      } else {
        want_member = None;
      }
      let r = JwtCredentialValidatorUtils::check_status(&cred, &[doc], sc);
      let name: &'static str = match &r {
        Ok(()) => "ok",
        Err(e) => e.into(),
      };
      let obs = match name {
        "ok" => "ok",
        "Revoked" => "revoked",
        "InvalidStatus" => "invalid-status",
        "DocumentMismatch" => "document-mismatch",
        "ServiceLookupError" => "service-lookup",
        _ => "other-error",
      };
      // oracle: with a well-formed bitmap status pointing at an existing service of the issuer, revoked iff member
      let wf = args[2] == "bitmap" && args[5] == "1" && args[6] == "1" && sc != StatusCheck::SkipAll && args[3].parse::<u32>().is_ok() && (args[4] == "-" || args[4].split(',').all(|q| q == args[3]));
      let f = match (wf, want_member) {
        (true, Some(true)) if obs != "revoked" => Some(format!("status-report-wrong:member but {}", obs)),
        (true, Some(false)) if obs != "ok" => Some(format!("status-report-wrong:not a member but {}", obs)),
        _ if obs == "revoked" && !(wf && want_member == Some(true)) => Some("status-report-wrong:revoked without membership".to_string()),
        _ => None,
      };
      with(obs.into(), f)
    }
    // several trusted issuers whose DIDs differ only in letter case: the status must be looked up in the document whose id
    // EQUALS the credential's issuer.  `statusm <order> <index> <set of issuer AbCd> <set of issuer abcd>`
    // `statusx <variant> <index> <setA> <setB>`: services with the fragment `#rev` under two DIDs.
    //   foreign: the issuer holds `issuer#rev` (setA); the status entry names `other#rev`       -> service lookup error
    //   two:     the issuer holds `other#rev` (setA) then `issuer#rev` (setB); entry `issuer#rev` -> membership in setB
    //   twor:    the same services in the other order
    Some("statusx") if args.len() == 5 => {
      let (Ok(idx), Some(sa), Some(sb)) = (args[2].parse::<u32>(), nats(args[3]), nats(args[4])) else { return "bad-request".into() };
      let issuer_did = did();
      let other_did = CoreDID::parse("did:example:other").unwrap();
      let mut doc = CoreDocument::builder(Object::new()).id(issuer_did.clone()).build().unwrap();
      let own = issuer_did.to_url().join("#rev").unwrap();
      let foreign = other_did.to_url().join("#rev").unwrap();
      let (status_id, want): (String, Option<bool>) = match args[1] {
        "foreign" => {
          doc.insert_service(bitmap_of(&sa).to_service(own.clone()).unwrap()).unwrap();
          (format!("{}?index={}#rev", other_did, idx), None)
        }
        v @ ("two" | "twor") => {
          let first = bitmap_of(&sa).to_service(foreign.clone()).unwrap();
          let second = bitmap_of(&sb).to_service(own.clone()).unwrap();
          if v == "two" {
            doc.insert_service(first).unwrap();
            doc.insert_service(second).unwrap();
          } else {
            doc.insert_service(second).unwrap();
            doc.insert_service(first).unwrap();
          }
          (format!("{}?index={}#rev", issuer_did, idx), Some(sb.contains(&idx)))
        }
        _ => return "bad-request".into(),
      };
      let mut cred: Credential = CredentialBuilder::default()
        .issuer(Issuer::Url(Url::parse(issuer_did.as_str()).unwrap()))
        .subject(Subject::with_id(Url::parse("did:example:subject").unwrap()))
        .build()
        .unwrap();
      let mut props = Object::new();
      props.insert("revocationBitmapIndex".into(), Value::String(idx.to_string()));
      cred.credential_status = Some(Status::new_with_properties(Url::parse(&status_id).unwrap(), "RevocationBitmap2022".to_string(), props));
      let r = JwtCredentialValidatorUtils::check_status(&cred, &[doc], StatusCheck::Strict);
      let name: &'static str = match &r {
        Ok(()) => "ok",
        Err(e) => e.into(),
      };
      let f = match want {
        None if name == "ok" || name == "Revoked" => Some(format!("status-report-wrong:a status entry that names the service of ANOTHER DID is answered ({}) from the issuer's own service with the same fragment", name)),
        Some(true) if name != "Revoked" => Some(format!("status-report-wrong:member of the issuer's own service but {} (a service of another DID shares the fragment)", name)),
        Some(false) if name != "ok" => Some(format!("status-report-wrong:not a member of the issuer's own service but {} (a service of another DID shares the fragment)", name)),
        _ => None,
      };
      let obs = match name {
        "ok" => "ok",
        "Revoked" => "revoked",
        "InvalidStatus" => "invalid-status",
        "DocumentMismatch" => "document-mismatch",
        "ServiceLookupError" => "service-lookup",
        _ => "other-error",
      };
      with(obs.to_string(), f)
    }
    Some("statusm") if args.len() == 5 => {
      let (Some(i), Some(a), Some(b)) = (args[2].parse::<u32>().ok(), nats(args[3]), nats(args[4])) else { return "bad-request".into() };
      let mk = |d: &str, set: &[u32]| {
        let did = CoreDID::parse(d).unwrap();
        let mut doc = CoreDocument::builder(Object::new()).id(did.clone()).build().unwrap();
        doc.insert_service(bitmap_of(set).to_service(did.to_url().join("#rev").unwrap()).unwrap()).unwrap();
        doc
      };
      let (da, db) = (mk("did:example:AbCd", &a), mk("did:example:abcd", &b));
      let mut cred: Credential = CredentialBuilder::default()
        .issuer(Issuer::Url(Url::parse("did:example:AbCd").unwrap()))
        .subject(Subject::with_id(Url::parse("did:example:subject").unwrap()))
        .build()
        .unwrap();
      let mut props = Object::new();
      props.insert("revocationBitmapIndex".into(), Value::String(i.to_string()));
      cred.credential_status = Some(Status::new_with_properties(Url::parse(&format!("did:example:AbCd?index={}#rev", i)).unwrap(), "RevocationBitmap2022".to_string(), props));
      let docs = if args[1] == "0" { vec![da, db] } else { vec![db, da] };
      let r = JwtCredentialValidatorUtils::check_status(&cred, &docs, StatusCheck::Strict);
      let name: &'static str = match &r {
        Ok(()) => "ok",
        Err(e) => e.into(),
      };
      let obs = match name {
        "ok" => "ok",
        "Revoked" => "revoked",
        _ => "error",
      };
      let want = if a.contains(&i) { "revoked" } else { "ok" };
      with(obs.into(), if obs != want { Some(format!("status-report-wrong:issuer AbCd has index {} {} but the report is {} ({})", i, if a.contains(&i) { "set" } else { "clear" }, obs, name)) } else { None })
    }
    _ => "bad-request".into(),
  }
}

/// the document a history runs against
enum Hist {
  Core(CoreDocument),
  Iota(identity_iota_core::IotaDocument),
}
impl Hist {
  fn new(iota: bool, d: &CoreDID) -> Self {
    if iota {
      Hist::Iota(identity_iota_core::IotaDocument::new_with_id(identity_iota_core::IotaDID::try_from(d.clone()).unwrap()))
    } else {
      Hist::Core(CoreDocument::builder(Object::new()).id(d.clone()).build().unwrap())
    }
  }
  fn insert_service(&mut self, s: Service) {
    match self {
      Hist::Core(d) => d.insert_service(s).unwrap(),
      Hist::Iota(d) => d.insert_service(s).unwrap(),
    }
  }
  fn revoke(&mut self, sid: &DIDUrl, is: &[u32]) -> Result<(), ()> {
    match self {
      Hist::Core(d) => d.revoke_credentials(sid, is).map_err(|_| ()),
      Hist::Iota(d) => d.revoke_credentials(sid, is).map_err(|_| ()),
    }
  }
  fn unrevoke(&mut self, sid: &DIDUrl, is: &[u32]) -> Result<(), ()> {
    match self {
      Hist::Core(d) => d.unrevoke_credentials(sid, is).map_err(|_| ()),
      Hist::Iota(d) => d.unrevoke_credentials(sid, is).map_err(|_| ()),
    }
  }
  fn bitmap(&self, sid: &DIDUrl) -> Result<RevocationBitmap, ()> {
    match self {
      Hist::Core(d) => d.resolve_revocation_bitmap(sid.into()).map_err(|_| ()),
      Hist::Iota(d) => d.core_document().resolve_revocation_bitmap(sid.into()).map_err(|_| ()),
    }
  }
}

/// a batch exactly as given: order and repetitions kept
fn raw(is: &[u32]) -> String {
  if is.is_empty() {
    "-".into()
  } else {
    is.iter().map(|x| x.to_string()).collect::<Vec<_>>().join(",")
  }
}

fn csv(is: &[u32]) -> String {
  if is.is_empty() {
    "-".into()
  } else {
    let mut v = is.to_vec();
    v.sort();
    v.dedup();
    v.iter().map(|x| x.to_string()).collect::<Vec<_>>().join(",")
  }
}

fn index_sets(r: &mut Rng, thorough: bool) -> Vec<Vec<u32>> {
  let mut sets: Vec<Vec<u32>> = vec![vec![], vec![0], vec![0, 5, 6, 8], vec![42, 420, 4200, 42000], vec![5, 398, 67000], vec![u32::MAX], vec![65535, 65536, 131071, 131072]];
  // dense ranges, run-heavy, sparse random, spanning several containers
  for n in [1u32, 2, 5, 6, 10, 50, 300, 4096, 4097] {
    sets.push((0..n).collect());
    sets.push((0..n).map(|i| i * 3).collect());
    sets.push((0..n).map(|i| 65536 * (i % 5) + i).collect());
  }
  // one index per container, a few containers: compressed forms of every block type (the third base64 character)
  for n in 1u32..=(if thorough { 64 } else { 24 }) {
    sets.push((0..n).map(|i| i << 16).collect());
    sets.push((0..n).map(|i| (i << 16) + i * 257).collect());
  }
  let cnt = if thorough { 300 } else { 40 };
  for k in 0..cnt {
    let n = 1 + r.below(if k % 4 == 0 { 2000 } else { 40 }) as usize;
    let span = [100u64, 70000, 1 << 20, 1 << 32][k % 4];
    sets.push((0..n).map(|_| r.below(span) as u32).collect());
  }
  // serialised forms beyond 32 KiB (more than one inflate buffer): dense, array-container and block-sparse
  sets.push((0..100_000).map(|i| i * 7).collect());
  sets.push((0..5 * 32768).map(|i| i * 2).collect());
  sets.push((0..17_000).map(|i| i * 4099).collect());
  if thorough {
    sets.push((0..4000u32).map(|i| i * 65536 + (i % 7)).collect());
    sets.push((0..400_000).map(|i| i * 3 + 1).collect());
  }
  sets
}

pub fn gen(thorough: bool, seed: u64, out: &mut impl Write) {
  let mut r = Rng::new(seed ^ 0xC06);
  let ty = hex(b"RevocationBitmap2022");
  // bitmaps that touch many / all 65536-blocks
  for blocks in [1u32, 2, 255, 256, 4096, 65535, 65536] {
    if thorough || blocks != 65535 {
      writeln!(out, "C06 big {}", blocks).unwrap();
    }
  }
  // one decoded value changed by revoke / unrevoke calls on the value itself (also equal numbers of each), then re-encoded
  {
    let pool = [0u32, 1, 2, 3, 7, 12, 255, 70000];
    for start in ["-", "7", "1,2,3", "0,255,70000"] {
      for a in pool {
        for b in pool {
          writeln!(out, "C06 inst {} | r:{} u:{}", start, a, b).unwrap();
          writeln!(out, "C06 inst {} | u:{} r:{}", start, a, b).unwrap();
        }
      }
      for _ in 0..(if thorough { 400 } else { 40 }) {
        let n = 1 + r.below(6);
        let ops: Vec<String> = (0..n).map(|_| format!("{}:{}", if r.chance(1, 2) { "r" } else { "u" }, r.pick(&pool))).collect();
        writeln!(out, "C06 inst {} | {}", start, ops.join(" ")).unwrap();
      }
    }
  }
  for is in index_sets(&mut r, thorough) {
    let b = bitmap_of(&is);
    let data = endpoint_data(&b);
    let z = b64_strict(data.as_bytes()).unwrap();
    let set = csv(&is);
    let url = format!("{}{}", PATTERN, data);
    let small = is.len() <= 400;
    if small {
      // (a) the library's own encoding
      writeln!(out, "C06 decode {} {} Z={}={} OWN=x={}", ty, hex(url.as_bytes()), hex(&z), set, set).unwrap();
      // (c) legacy double encoding: Base64(ascii(Base64Url(compressed)))
      let inner = BaseEncoding::encode(&z, Base::Base64Url);
      let legacy = BaseEncoding::encode(inner.as_bytes(), Base::Base64);
      writeln!(out, "C06 decode {} {} Z={}={} LEG=x={}", ty, hex(format!("{}{}", PATTERN, legacy).as_bytes()), hex(&z), set, set).unwrap();
      // malformed variants that cannot decode
      for bad in [format!("{}{}", PATTERN, &data[..data.len() / 2 + 1]), format!("{}!{}", PATTERN, data), format!("data:text/plain;base64,{}", data), format!("{}{}=", PATTERN, data), format!("{}", data)] {
        if Url::parse(&bad).is_ok() {
          writeln!(out, "C06 decode {} {} Z={}={}", ty, hex(bad.as_bytes()), hex(&z), set).unwrap();
        }
      }
      // type variations and endpoint shapes
      writeln!(out, "C06 decode {} {} Z={}={}", hex(b"Other"), hex(url.as_bytes()), hex(&z), set).unwrap();
      // a service with several types is a bitmap service wherever the bitmap type stands in the list
      for tys in [format!("{},{}", hex(b"Other"), ty), format!("{},{}", ty, hex(b"Other")), format!("{},{},{}", hex(b"Other"), hex(b"CredentialStatusService"), ty)] {
        writeln!(out, "C06 decode {} {} Z={}={} OWN=x={}", tys, hex(url.as_bytes()), hex(&z), set, set).unwrap();
      }
      writeln!(out, "C06 decode {} ~ Z={}={}", ty, hex(&z), set).unwrap();
    } else {
      // large sets: implementation-side round trip only (the line would be too long for the table)
      writeln!(out, "C06 hist {} q:{}", set_short(&is), is[0]).unwrap();
    }
  }
  // issuers differing only in letter case, both orders of the trusted list
  for order in [0, 1] {
    for i in [0u32, 1, 5, 7] {
      for (a, b) in [("5", "7"), ("7", "5"), ("-", "0,1,5,7"), ("0,1,5,7", "-"), ("1,5", "1,5")] {
        writeln!(out, "C06 statusm {} {} {} {}", order, i, a, b).unwrap();
      }
    }
  }
  // (b) histories through the document
  let nh = if thorough { 3000 } else { 300 };
  for k in 0..nh {
    let span = [10u64, 300, 70000, 1 << 32][k % 4];
    let start: Vec<u32> = (0..r.below(6)).map(|_| r.below(span) as u32).collect();
    let mut ops = vec![];
    for _ in 0..(1 + r.below(8)) {
      let n = r.below(7) as usize;
      let is: Vec<u32> = (0..n).map(|_| r.below(span) as u32).collect();
      match r.below(3) {
        0 => ops.push(format!("un:{}", raw(&is))),
        _ => ops.push(format!("rv:{}", raw(&is))),
      }
      ops.push(format!("q:{}", r.below(span)));
    }
    writeln!(out, "C06 hist {} {}", csv(&start), ops.join(" ")).unwrap();
    // every second history also through IotaDocument's own revoke / unrevoke methods
    if k % 2 == 0 {
      writeln!(out, "C06 ihist {} {}", csv(&start), ops.join(" ")).unwrap();
    }
  }
  // (b') batches that are nearly a contiguous range: unsorted, with a repeated index, with one index outside
  let crafted: [&[u32]; 8] = [&[5, 9, 7, 8], &[20, 22, 22], &[3, 1, 2, 4], &[7, 7], &[10, 12, 11, 11], &[1, 3, 3, 4], &[100, 102, 101, 103, 103], &[6, 5]];
  for b in crafted {
    for op in ["rv", "un"] {
      let start = if op == "un" { "0,1,2,3,4,5,6,7,8,9,10,11,12,20,21,22,100,101,102,103,104" } else { "-" };
      let qs: Vec<String> = (b.iter().min().unwrap().saturating_sub(1)..=b.iter().max().unwrap() + 1).map(|q| format!("q:{}", q)).collect();
      writeln!(out, "C06 hist {} {}:{} {}", start, op, raw(b), qs.join(" ")).unwrap();
      writeln!(out, "C06 ihist {} {}:{} {}", start, op, raw(b), qs.join(" ")).unwrap();
    }
  }
  for _ in 0..(if thorough { 600 } else { 60 }) {
    let base = r.below(50) as u32;
    let n = 2 + r.below(5) as u32;
    let mut b: Vec<u32> = (base..base + n).collect();
    // shuffle, then replace one element by a duplicate of another or by a value just outside
    for i in (1..b.len()).rev() {
      let j = r.below(i as u64 + 1) as usize;
      b.swap(i, j);
    }
    let k = r.below(b.len() as u64) as usize;
    b[k] = match r.below(3) {
      0 => b[(k + 1) % b.len()],
      1 => base + n + r.below(3) as u32,
      _ => b[k],
    };
    let qs: Vec<String> = (base.saturating_sub(1)..=base + n + 3).map(|q| format!("q:{}", q)).collect();
    writeln!(out, "C06 hist {} {}:{} {}", if r.chance(1, 2) { "-".to_string() } else { csv(&(base..base + n + 3).collect::<Vec<_>>()) }, r.pick(&["rv", "un"]), raw(&b), qs.join(" ")).unwrap();
  }
  // (d') the service is looked up by the FULL id of the status entry: another DID with the same fragment is another service
  for idx in [0u32, 5, 7] {
    for (a, b) in [("5", "7"), ("7", "5"), ("-", "5,7"), ("5,7", "-")] {
      for v in ["foreign", "two", "twor"] {
        writeln!(out, "C06 statusx {} {} {} {}", v, idx, a, b).unwrap();
      }
    }
  }
  // (d) check_status decision table
  for sc in ["strict", "skipu", "skipall"] {
    for ty in ["none", "bitmap", "other"] {
      for ip in ["absent", "notstring", "nan", "0", "7", "4294967295", "4294967296"] {
        for qs in ["-", "7", "8", "7,7", "7,8", "x"] {
          for idok in ["1", "0"] {
            for issuer in ["1", "0"] {
              for svc in ["~", "-", "7", "0,7,9"] {
                if ty == "none" && (ip != "absent" || qs != "-" || idok != "1") {
                  continue;
                }
                writeln!(out, "C06 status {} {} {} {} {} {} {}", sc, ty, ip, qs, idok, issuer, svc).unwrap();
              }
            }
          }
        }
      }
    }
  }
}

fn set_short(is: &[u32]) -> String {
  csv(is)
}
