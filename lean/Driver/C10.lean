import IdModel.Did.Model
import Driver.Util
namespace Driver.C10
open IdModel IdModel.Did

def ho (o : Option Str) : String := match o with | none => "~" | some s => hex s

def showUrl (u : DidUrl) : String := s!"ok:{hex u.did}:{ho u.path}:{ho u.query}:{ho u.fragment}"

def showOut (o : Outcome DErr DidUrl) : String :=
  match o with
  | .ok u => showUrl u
  | .err _ => "err"
  | .panic _ => "panic"

def optArg (t : String) : Option (Option Str) := if t == "~" then some none else (unhex t).map some

def handle : List String → String
  | ["did", h] =>
    match unhex h with
    | some s => match parseDid s with
      | .ok d => s!"ok:{hex d.method}:{hex d.methodId}"
      | .err _ => "err"
      | .panic _ => "panic"
    | none => "bad-request"
  | ["jwk", _] => "u"
  | ["url", h] =>
    match unhex h with
    | some s => showOut (parseUrl s)
    | none => "bad-request"
  | ["join", b, g] =>
    match unhex b, unhex g with
    | some b, some g =>
      match parseUrl b with
      | .ok u => showOut (join u g)
      | _ => "bad-request"
    | _, _ => "bad-request"
  | ["set", b, k, v] =>
    match unhex b, optArg v with
    | some b, some v =>
      match parseUrl b with
      | .ok u =>
        let r : Option DidUrl :=
          if k == "p" then (setPath v).map fun p => { u with path := p }
          else if k == "q" then (setQuery v).map fun q => { u with query := q }
          else if k == "f" then (setFragment v).map fun f => { u with fragment := f }
          else none
        match r with
        | some u' => showUrl u'
        | none => "err"
      | _ => "bad-request"
    | _, _ => "bad-request"
  | ["setdid", b, k, v] =>
    match unhex b, unhex v with
    | some b, some v =>
      match parseDid b with
      | .ok d =>
        let r := if k == "n" then setMethodName d v else if k == "i" then setMethodId d v else none
        match r with
        | some d' => s!"ok:{hex d'.str}"
        | none => "err"
      | _ => "bad-request"
    | _, _ => "bad-request"
  | ["cmp", a, b] =>
    match unhex a, unhex b with
    | some a, some b =>
      match parseUrl a, parseUrl b with
      | .ok x, .ok y =>
        let o := match DidUrl.cmp x y with | .lt => "lt" | .eq => "eq" | .gt => "gt"
        s!"{o}:{if DidUrl.eq x y then "E" else "N"}"
      | _, _ => "bad-request"
    | _, _ => "bad-request"
  | _ => "bad-request"

end Driver.C10
