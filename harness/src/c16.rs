//! C16 — SD-JWT credentials and key-binding JWTs are accepted only when fully bound.
//!
//! Requests:
//!   `C16 cred <doc> T=<token> O=<opts>`   SdJwtCredentialValidator::validate_credential
//!        token / opts / doc as in c02.rs, the token with three more members:
//!          `sdv:<variant>`  which disclosures are presented: `d<mask>` (bit i: the i-th of degree / gpa / name),
//!                           `F` all + a forged one, `U` one twice, `R` reversed order, `A` one with an altered value,
//!                           `G` all + a string that is no disclosure
//!          `sd:<0|1>`       fact: the disclosure decoder accepts these disclosures against the signed claims
//!                           (the decoder is a third-party component and a parameter of the model)
//!          `sdspe:<0|1>`    fact: the reconstructed subject has no properties
//!   `C16 kb <doc> K=<kb> O=<opts>`        SdJwtCredentialValidator::validate_key_binding_jwt against the holder document
//!        kb   = `p:<0|1>;alg:<0|1>;typ:<k|s|x|~>;kid:<~|X|did.pq.frag>;sig:<k>;cl:<h=<1|2|3>,n=<n>,a=<n>,iat=<unix>|J>`
//!               p: a KB-JWT is attached; alg: the signed claims name a supported hash; typ: the library's constant /
//!               the literal "kb+jwt" / another value / absent; h: sd_hash over the presented token (1), over the token
//!               with other disclosures (2), something else (3)
//!        opts = `mid:<~|id>;sc:<~|vm|0..4>;n:<~|n>;a:<~|n>;e:<~|unix>;l:<~|unix>;now:<unix>`
//! Implementation-side oracles: an accepted credential has every presented disclosure's digest in the signed claims or
//! in another presented disclosure; an accepted KB-JWT is typed exactly "kb+jwt".
use crate::c02::{build_doc, build_opts, kind, kvc, oi, scope_of, show_cred, token_parts};
use crate::c04::{id_str, parse_id, KIND};
use crate::jwtu::*;
use crate::rng::Rng;
use identity_core::common::Object;
use identity_core::common::Timestamp;
use identity_credential::sd_jwt_payload::Hasher;
use identity_credential::sd_jwt_payload::KeyBindingJwtClaims;
use identity_credential::sd_jwt_payload::SdJwt;
use identity_credential::sd_jwt_payload::SdObjectDecoder;
use identity_credential::sd_jwt_payload::SdObjectEncoder;
use identity_credential::sd_jwt_payload::Sha256Hasher;
use identity_credential::validator::KeyBindingJWTValidationOptions;
use identity_credential::validator::KeyBindingJwtError;
use identity_credential::validator::SdJwtCredentialValidator;
use identity_did::DIDUrl;
use identity_document::document::CoreDocument;
use identity_document::verifiable::JwsVerificationOptions;
use serde_json::json;
use serde_json::Map;
use serde_json::Value;
use std::io::Write;

const PROPS: [(&str, &str); 3] = [("degree", "B"), ("gpa", "4.0"), ("name", "A")];

/// conceal the three subject properties; returns the signed claims and the three disclosures
fn conceal(claims_json: &str, alg_ok: bool) -> Option<(String, Vec<String>)> {
  conceal_m(claims_json, alg_ok, 7)
}

/// conceal the subject properties selected by `mask` (the others stay in the clear); `mask = 0`: an SD-JWT whose issuer
/// concealed nothing
fn conceal_m(claims_json: &str, alg_ok: bool, mask: u32) -> Option<(String, Vec<String>)> {
  let mut v: Value = serde_json::from_str(claims_json).ok()?;
  {
    let subj = v.get_mut("vc")?.get_mut("credentialSubject")?.as_object_mut()?;
    for (k, x) in PROPS {
      subj.insert(k.to_string(), json!(x));
    }
  }
  let mut enc = SdObjectEncoder::new(&v.to_string()).ok()?;
  let mut ds = vec![];
  for (i, (k, _)) in PROPS.iter().enumerate() {
    if mask >> i & 1 == 0 {
      continue;
    }
    ds.push(enc.conceal(&format!("/vc/credentialSubject/{}", k), Some(format!("salt{}", i))).ok()?.to_string());
  }
  enc.add_sd_alg_property();
  let mut signed: Value = serde_json::from_str(&enc.try_to_string().ok()?).ok()?;
  if !alg_ok {
    signed.as_object_mut()?.insert("_sd_alg".into(), json!("md5"));
  }
  Some((signed.to_string(), ds))
}

fn presented(variant: &str, ds: &[String]) -> Option<Vec<String>> {
  let all: Vec<String> = ds.to_vec();
  let forged = b64(b"[\"saltX\",\"role\",\"admin\"]");
  Some(match variant.chars().next()? {
    'd' => {
      let mask: u32 = variant[1..].parse().ok()?;
      ds.iter().enumerate().filter(|(i, _)| mask >> i & 1 == 1).map(|(_, d)| d.clone()).collect()
    }
    'F' => {
      let mut v = all;
      v.push(forged);
      v
    }
    'U' => {
      let mut v = all;
      v.truncate(2);
      v.push(ds.first().cloned().unwrap_or(forged));
      v
    }
    'R' => all.into_iter().rev().collect(),
    'A' => {
      let mut v = all;
      let altered = b64(b"[\"salt1\",\"gpa\",\"5.0\"]");
      if v.len() > 1 {
        v[1] = altered;
      } else {
        v.push(altered);
      }
      v
    }
    'G' => {
      let mut v = all;
      v.push("not-a-disclosure".into());
      v
    }
    // all + a string that is no base64url and holds multi-byte characters behind `pad` ASCII characters (error paths
    // that echo, cut or index the offending disclosure)
    'M' => {
      let pad: usize = variant[1..].parse().ok()?;
      let mut v = all;
      v.push(format!("{}\u{e9}\u{20ac}\u{1f600}\u{e9}\u{20ac}\u{1f600}\u{e9}\u{e9}", "a".repeat(pad)));
      v
    }
    _ => return None,
  })
}

fn cred(args: &[&str]) -> String {
  let docs: Vec<CoreDocument> = match args[1].split('/').map(build_doc).collect::<Option<Vec<_>>>() {
    Some(d) if !d.is_empty() && (args[0] == "ver" || d.len() == 1) => d,
    _ => return "bad-request".into(),
  };
  let doc = docs[0].clone();
  let tok_s = match args[2].strip_prefix("T=") {
    Some(t) => t,
    None => return "bad-request".into(),
  };
  let m = kvc(tok_s, ';', ':');
  let (hdr, claims, sig) = match token_parts(tok_s) {
    Some(x) => x,
    None => return "bad-request".into(),
  };
  let (opts, ff) = match args[3].strip_prefix("O=").and_then(build_opts) {
    Some(o) => o,
    None => return "bad-request".into(),
  };
  let variant = match m.get("sdv") {
    Some(v) => v.clone(),
    None => return "bad-request".into(),
  };
  // a payload that is not a claims set is signed as it is
  let (signed, ds) = if m.get("cl").map(|s| s.as_str()) == Some("J") {
    (claims.clone(), vec![])
  } else {
    let mask: u32 = m.get("sdc").and_then(|x| x.parse().ok()).unwrap_or(7);
    match conceal_m(&claims, true, mask) {
      Some(x) => x,
      None => return "bad-request".into(),
    }
  };
  let pres = if m.get("cl").map(|s| s.as_str()) == Some("J") { vec![] } else { presented(&variant, &ds).unwrap_or_default() };
  let jwt = sign_compact(&hdr, &signed, sig);
  let sd = SdJwt::new(jwt, pres.clone(), None);
  let v = SdJwtCredentialValidator::with_signature_verifier(ToyVerifier, SdObjectDecoder::new_with_sha256());
  if args[0] == "ver" {
    return match v.verify_signature::<CoreDocument, Object>(&sd, &docs, &opts.verification_options) {
      Ok(d) => format!("ok:{}", show_cred(&d.credential)),
      Err(e) => {
        let s = format!("{:?}", e);
        format!("err:{}", if s.contains("sd-jwt claims decoding failed") { "sdDecode".to_string() } else if s.contains("sd-jwt claims could not be deserialized") { "claimsJson".to_string() } else { kind(&e) })
      }
    };
  }
  match v.validate_credential::<CoreDocument, Object>(&sd, &doc, &opts, ff) {
    Ok(d) => {
      if std::env::var("HX_DEBUG").is_ok() {
        use identity_core::convert::ToJson;
        eprintln!("signed: {}\ndecoded credential: {}", signed, d.credential.to_json().unwrap_or_default());
      }
      let line = format!("ok:{}", show_cred(&d.credential));
      // every presented disclosure is bound: its digest is in the signed claims or in another presented disclosure
      let h = Sha256Hasher::new();
      for x in &pres {
        let dg = h.encoded_digest(x);
        if !signed.contains(&dg) && !pres.iter().any(|y| y != x && String::from_utf8(crate::c01::b64_strict(y.as_bytes()).unwrap_or_default()).unwrap_or_default().contains(&dg)) {
          return format!("{}\t#FAIL:disclosure-not-bound:accepted although the disclosure {} hashes to a digest that is not in the signed claims", line, x);
        }
      }
      line
    }
    Err(e) => {
      let ks: Vec<String> = e
        .validation_errors
        .iter()
        .map(|x| {
          let s = format!("{:?}", x);
          if s.contains("sd-jwt claims decoding failed") {
            "sdDecode".to_string()
          } else if s.contains("sd-jwt claims could not be deserialized") {
            "claimsJson".to_string()
          } else {
            kind(x)
          }
        })
        .collect();
      format!("err:{}", ks.join(","))
    }
  }
}

fn kb(args: &[&str]) -> String {
  let doc: CoreDocument = match build_doc(args[1]) {
    Some(d) => d,
    None => return "bad-request".into(),
  };
  let m = match args[2].strip_prefix("K=") {
    Some(t) => kvc(t, ';', ':'),
    None => return "bad-request".into(),
  };
  let om = match args[3].strip_prefix("O=") {
    Some(t) => kvc(t, ';', ':'),
    None => return "bad-request".into(),
  };
  let r: Option<String> = (|| {
    // the presented SD-JWT: a fixed credential of issuer 1 with two of three disclosures
    let base = r#"{"iss":"did:ex:i1","nbf":100,"sub":"did:ex:s2","vc":{"@context":"https://www.w3.org/2018/credentials/v1","type":"VerifiableCredential","credentialSubject":{}}}"#;
    let (signed, ds) = conceal(base, m.get("alg")? == "1")?;
    let jwt = sign_compact(r#"{"alg":"EdDSA","kid":"did:ex:i1#k0"}"#, &signed, 10);
    // which of the three disclosures are presented (`pd:<mask>`, default degree + name)
    let mask: u32 = m.get("pd").map(|x| x.parse().ok()).unwrap_or(Some(5))?;
    let pres: Vec<String> = ds.iter().enumerate().filter(|(i, _)| mask >> i & 1 == 1).map(|(_, d)| d.clone()).collect();
    // another disclosure set than the presented one
    let other: Vec<String> = if mask == 7 { vec![ds[0].clone()] } else { ds.clone() };
    let hasher = Sha256Hasher::new();
    let digest_of = |d: &[String]| hasher.encoded_digest(&format!("{}~{}~", jwt, d.join("~")));
    // the key-binding JWT
    let kbj: Option<String> = if m.get("p")? == "1" {
      let mut hdr = Map::new();
      hdr.insert("alg".into(), json!("EdDSA"));
      match m.get("typ")?.as_str() {
        "k" => {
          hdr.insert("typ".into(), json!(KeyBindingJwtClaims::KB_JWT_HEADER_TYP));
        }
        "s" => {
          hdr.insert("typ".into(), json!("kb+jwt"));
        }
        "x" => {
          hdr.insert("typ".into(), json!("JWT"));
        }
        _ => {}
      }
      match m.get("kid")?.as_str() {
        "~" => {}
        "X" => {
          hdr.insert("kid".into(), json!("#k1"));
        }
        k => {
          hdr.insert("kid".into(), json!(id_str(parse_id(k)?)));
        }
      }
      let cl = m.get("cl")?;
      let claims = if cl == "J" {
        "{\"iat\":\"x\"}".to_string()
      } else {
        let c = kvc(cl, ',', '=');
        let h = match c.get("h")?.as_str() {
          "1" => digest_of(&pres),
          "2" => digest_of(&other),
          _ => "AAAA".to_string(),
        };
        json!({"iat": oi(&c, "iat")??, "aud": format!("a{}", c.get("a")?), "nonce": format!("n{}", c.get("n")?), "sd_hash": h}).to_string()
      };
      Some(sign_compact(&Value::Object(hdr).to_string(), &claims, m.get("sig")?.parse().ok()?))
    } else {
      None
    };
    let sd = SdJwt::new(jwt.clone(), pres.clone(), kbj);
    let mut jo = JwsVerificationOptions::default();
    if let Some(x) = om.get("mid").filter(|x| x.as_str() != "~") {
      jo = jo.method_id(DIDUrl::parse(id_str(parse_id(x)?)).ok()?);
    }
    if let Some(sc) = scope_of(om.get("sc")?)? {
      jo = jo.method_scope(sc);
    }
    let mut o = KeyBindingJWTValidationOptions::default().jws_verifier_options(jo);
    // `E`: the expected value is the empty string (no key-binding JWT of this stream carries it)
    if om.get("n").map(|x| x.as_str()) == Some("E") {
      o = o.nonce("");
    } else if let Some(n) = oi(&om, "n")? {
      o = o.nonce(format!("n{}", n));
    }
    if om.get("a").map(|x| x.as_str()) == Some("E") {
      o = o.aud("");
    } else if let Some(a) = oi(&om, "a")? {
      o = o.aud(format!("a{}", a));
    }
    if let Some(e) = oi(&om, "e")? {
      o = o.earliest_issuance_date(Timestamp::from_unix(e).ok()?);
    }
    if let Some(l) = oi(&om, "l")? {
      o = o.latest_issuance_date(Timestamp::from_unix(l).ok()?);
    }
    let v = SdJwtCredentialValidator::with_signature_verifier(ToyVerifier, SdObjectDecoder::new_with_sha256());
    Some(match v.validate_key_binding_jwt(&sd, &doc, &o) {
      Ok(c) => {
        let h = if c.sd_hash == digest_of(&pres) {
          1
        } else if c.sd_hash == digest_of(&other) {
          2
        } else {
          3
        };
        let line = format!("ok:h={};n={};a={};iat={}", h, c.nonce.trim_start_matches('n'), c.aud.trim_start_matches('a'), c.iat);
        if h != 1 {
          return Some(format!("{}\t#FAIL:kb-digest-not-bound:a key-binding JWT is accepted although its sd_hash is not the hash over the presented token and its {} disclosure(s)", line, pres.len()));
        }
        match m.get("typ").map(|s| s.as_str()) {
          Some("s") => line,
          Some("k") if KeyBindingJwtClaims::KB_JWT_HEADER_TYP == " kb+jwt" => format!(
            "{}\t#FAIL:kb-typ-leading-space:a key-binding JWT typed \" kb+jwt\" (the constant of sd-jwt-payload 0.2.1, with a leading space) is accepted, one typed \"kb+jwt\" is not",
            line
          ),
          other => format!("{}\t#FAIL:kb-typ-not-exact:a key-binding JWT typed {:?} is accepted", line, other),
        }
      }
      Err(e) => {
        let s = format!("{:?}", e);
        let k = match &e {
          KeyBindingJwtError::MissingKeyBindingJwt => "missing",
          KeyBindingJwtError::DeserializationError(_) => "deser",
          KeyBindingJwtError::SdJwtError(_) => "hasher",
          KeyBindingJwtError::InvalidDigest => "digest",
          KeyBindingJwtError::InvalidNonce => "nonce",
          KeyBindingJwtError::AudianceMismatch => "aud",
          KeyBindingJwtError::InvalidHeaderTypValue => "typ",
          KeyBindingJwtError::IssuanceDate(msg) => {
            if msg.contains("deserialization") {
              "iatRange"
            } else if msg.contains("earlier") {
              "tooEarly"
            } else if msg.contains("later") {
              "tooLate"
            } else {
              "future"
            }
          }
          KeyBindingJwtError::JwtValidationError(_) => {
            if s.contains("could not extract kid") {
              "kidMissing"
            } else if s.contains("could not parse kid") {
              "kidParse"
            } else if s.contains("could not extract JWK") {
              "methodLookup"
            } else if s.contains("Signature") {
              "signature"
            } else {
              "?jwt"
            }
          }
          _ => "?",
        };
        format!("err:{}", k)
      }
    })
  })();
  r.unwrap_or_else(|| "bad-request".into())
}

pub fn run(args: &[&str]) -> String {
  KIND.with(|k| k.set('J'));
  let r = if args.len() != 4 {
    "bad-request".to_string()
  } else {
    match args[0] {
      "cred" | "ver" => cred(args),
      "kb" => kb(args),
      _ => "bad-request".into(),
    }
  };
  KIND.with(|k| k.set('C'));
  r
}

// ---------------------------------------------------------------------------------------------------------
fn sd_fact(variant: &str) -> (u8, u8) {
  sd_fact_m(variant, 7)
}
fn sd_fact_m(variant: &str, mask: u32) -> (u8, u8) {
  // computed once on the reference construction: the decoder's verdict and whether any property is disclosed
  let base = r#"{"iss":"did:ex:i1","nbf":100,"vc":{"@context":"https://www.w3.org/2018/credentials/v1","type":"VerifiableCredential","credentialSubject":{}}}"#;
  let (signed, ds) = conceal_m(base, true, mask).unwrap();
  let pres = presented(variant, &ds).unwrap();
  let v: Value = serde_json::from_str(&signed).unwrap();
  match SdObjectDecoder::new_with_sha256().decode(v.as_object().unwrap(), &pres) {
    Err(_) => (0, 0),
    Ok(dec) => {
      // what the reconstructed subject holds (the decoder leaves the `_sd` array in place when nothing of an object
      // is disclosed, so the subject is then not empty)
      let empty = dec.get("vc").and_then(|x| x.get("credentialSubject")).and_then(|x| x.as_object()).map(|o| o.is_empty()).unwrap_or(true);
      (1, empty as u8)
    }
  }
}

pub fn gen(thorough: bool, seed: u64, out: &mut impl Write) {
  let mut r = Rng::new(seed ^ 0xC16);
  let doc = "D1;vm=1.0.1.11,1.0.3.0;a0=R1.0.1;a1=E1.0.2.12;a2=;a3=;a4=;sv=;bm=5,9";
  let variants = ["d0", "d1", "d2", "d3", "d4", "d5", "d6", "d7", "F", "U", "R", "A", "G"];
  let cl = "exp=1000,iss=u1,iat=~,nbf=100,jti=1,sub=2,vid=~,viss=~,vnbf=~,vexp=~,vsub=~";
  let tok = |kid: &str, hn: &str, sig: u32, cl: &str, typ: u8, st: &str, v: &str, sub: bool| -> String {
    let (ok, empty) = if cl == "J" { (1, 0) } else { sd_fact(v) };
    let cl = if sub { cl.to_string() } else { cl.replace("sub=2", "sub=~") };
    format!("T=kid:{};hn:{};sig:{};cl:{};ctx:1;typ:{};spe:0;nt:~;st:{};sdv:{};sd:{};sdspe:{}", kid, hn, sig, cl, typ, st, v, ok, empty)
  };
  let opt = |n: &str, sc: &str, ee: i64, li: i64, stc: &str, ff: u8| format!("O=n:{};mid:~;sc:{};ee:{};li:{};sh:~;stc:{};ff:{}", n, sc, ee, li, stc, ff);
  // (a) every disclosure variant x the signature-stage conditions x the units (subject id present / absent)
  for v in variants {
    for sub in [true, false] {
      for (kid, sig, hn, iss) in [("1.0.1", 11u32, "~", "u1"), ("1.0.1", 77, "~", "u1"), ("1.0.3", 11, "~", "u1"), ("~", 11, "~", "u1"), ("1.0.1", 11, "4", "u1"), ("1.0.1", 11, "~", "u2"), ("1.0.1", 11, "~", "w1")] {
        for (ee, li, typ, st) in [(500i64, 200i64, 1u8, "b7"), (1001, 200, 1, "b7"), (500, 99, 0, "b7"), (500, 200, 1, "b9")] {
          for ff in [0u8, 1] {
            writeln!(out, "C16 cred {} {} {}", doc, tok(kid, hn, sig, &cl.replace("iss=u1", &format!("iss={}", iss)), typ, st, v, sub), opt("~", "~", ee, li, "strict", ff)).unwrap();
          }
        }
      }
    }
  }
  // (a') the nonce rule of the issuer signature through validate_credential: every header nonce x every expected nonce
  // (absent / equal / different), with and without disclosures
  for v in ["d0", "d7", "d3"] {
    for hn in ["~", "4", "5"] {
      for n in ["~", "4", "5"] {
        for ff in [0u8, 1] {
          writeln!(out, "C16 cred {} {} {}", doc, tok("1.0.1", hn, 11, cl, 1, "b7", v, true), opt(n, "~", 500, 200, "strict", ff)).unwrap();
        }
      }
    }
  }
  // issuers that conceal only some properties, or nothing at all, with every disclosure variant; and disclosures that
  // are no base64url and hold multi-byte characters at every offset
  let tokm = |sig: u32, v: &str, mask: u32, sub: bool| -> String {
    let (ok, empty) = sd_fact_m(v, mask);
    let cl = if sub { cl.to_string() } else { cl.replace("sub=2", "sub=~") };
    format!("T=kid:1.0.1;hn:~;sig:{};cl:{};ctx:1;typ:1;spe:0;nt:~;st:b7;sdv:{};sdc:{};sd:{};sdspe:{}", sig, cl, v, mask, ok, empty)
  };
  for mask in [0u32, 1, 5, 6] {
    for v in variants {
      for sub in [true, false] {
        for sig in [11u32, 77] {
          writeln!(out, "C16 cred {} {} {}", doc, tokm(sig, v, mask, sub), opt("~", "~", 500, 200, "strict", 0)).unwrap();
        }
      }
    }
  }
  for pad in 0..(if thorough { 140 } else { 48 }) {
    for mask in [7u32, 0] {
      writeln!(out, "C16 cred {} {} {}", doc, tokm(11, &format!("M{}", pad), mask, true), opt("~", "~", 500, 200, "strict", 0)).unwrap();
    }
  }
  // inconsistent claims and a payload that is no claims set, under each variant
  for v in variants {
    writeln!(out, "C16 cred {} {} {}", doc, tok("1.0.1", "~", 11, &cl.replace("vid=~", "vid=9"), 1, "~", v, true), opt("~", "~", 500, 200, "strict", 0)).unwrap();
    writeln!(out, "C16 cred {} {} {}", doc, tok("1.0.1", "~", 11, "J", 1, "~", v, true), opt("~", "~", 500, 200, "strict", 0)).unwrap();
    for sc in ["vm", "0", "1"] {
      writeln!(out, "C16 cred {} {} {}", doc, tok("1.0.1", "~", 11, cl, 1, "~", v, true), opt("~", sc, 500, 200, "skipall", 0)).unwrap();
    }
  }
  // (b) key-binding JWT: every combination of the bound fields right / wrong
  let hdoc = "D2;vm=2.0.1.21,2.0.3.0,5.0.1.51;a0=E2.0.2.22;a1=;a2=;a3=;a4=;sv=";
  let now = Timestamp::now_utc().to_unix();
  for p in [1u8, 0] {
    for alg in [1u8, 0] {
      for typ in ["k", "s", "x", "~"] {
        for (kid, sig) in [("2.0.1", 21u32), ("2.0.1", 22), ("2.0.2", 22), ("2.0.3", 21), ("5.0.1", 51), ("~", 21), ("X", 21), ("2.0.9", 21)] {
          for h in [1u8, 2, 3] {
            for (n, a) in [(7u32, 4u32), (8, 4), (7, 5)] {
              if (p == 0 || alg == 0 || typ != "k") && (h != 1 || n != 7 || a != 4) {
                continue;
              }
              writeln!(out, "C16 kb {} K=p:{};alg:{};typ:{};kid:{};sig:{};cl:h={},n={},a={},iat=100 O=mid:~;sc:~;n:7;a:4;e:50;l:150;now:{}", hdoc, p, alg, typ, kid, sig, h, n, a, now).unwrap();
            }
          }
        }
      }
    }
  }
  // every presented disclosure subset (incl. none) x sd_hash over the presented / another / no disclosure set
  for pd in 0..8u32 {
    for h in [1u8, 2, 3] {
      writeln!(out, "C16 kb {} K=p:1;alg:1;typ:k;kid:2.0.1;sig:21;pd:{};cl:h={},n=7,a=4,iat=100 O=mid:~;sc:~;n:7;a:4;e:50;l:150;now:{}", hdoc, pd, h, now).unwrap();
    }
  }
  // verify_signature over several trusted issuers: the issuer claim must be the DID of the verifying key's document
  let d1 = "D1;vm=1.0.1.11;a0=;a1=;a2=;a3=;a4=;sv=";
  let d2 = "D2;vm=2.0.1.21,1.0.1.11;a0=;a1=;a2=;a3=;a4=;sv=";
  let d1b = "D1;vm=1.0.1.31;a0=;a1=;a2=;a3=;a4=;sv=";
  for docs in [format!("{}/{}", d1, d2), format!("{}/{}", d2, d1), format!("{}/{}", d1b, d1), d2.to_string(), format!("{}/{}/{}", d2, d1b, d1)] {
    for kid in ["1.0.1", "2.0.1", "3.0.1"] {
      for sig in [11u32, 21, 31] {
        for iss in ["u1", "u2", "w1"] {
          for v in ["d7", "d0", "F"] {
            writeln!(out, "C16 ver {} {} {}", docs, tok(kid, "~", sig, &cl.replace("iss=u1", &format!("iss={}", iss)), 1, "~", v, true), opt("~", "~", 500, 200, "strict", 0)).unwrap();
          }
        }
      }
    }
  }
  // issuance window edges, options present / absent, the wall clock branch, scope and method id
  for iat in [49i64, 50, 51, 100, 149, 150, 151, -62167219200, -62167219201, 253402300799, 253402300800] {
    for (e, l) in [("50", "150"), ("~", "150"), ("50", "~"), ("~", "~")] {
      for (n, a) in [("7", "4"), ("~", "~"), ("8", "~"), ("~", "5"), ("E", "4"), ("7", "E"), ("E", "E")] {
        writeln!(out, "C16 kb {} K=p:1;alg:1;typ:k;kid:2.0.1;sig:21;cl:h=1,n=7,a=4,iat={} O=mid:~;sc:~;n:{};a:{};e:{};l:{};now:{}", hdoc, iat, n, a, e, l, now).unwrap();
      }
    }
  }
  for sc in ["~", "vm", "0", "1"] {
    for (kid, mid, sig) in [("2.0.1", "~", 21u32), ("2.0.2", "~", 22), ("~", "2.0.2", 22), ("2.0.1", "2.0.2", 22), ("2.0.1", "2.0.2", 21)] {
      writeln!(out, "C16 kb {} K=p:1;alg:1;typ:k;kid:{};sig:{};cl:h=1,n=7,a=4,iat=100 O=mid:{};sc:{};n:7;a:4;e:50;l:150;now:{}", hdoc, kid, sig, mid, sc, now).unwrap();
    }
  }
  writeln!(out, "C16 kb {} K=p:1;alg:1;typ:k;kid:2.0.1;sig:21;cl:J O=mid:~;sc:~;n:7;a:4;e:50;l:150;now:{}", hdoc, now).unwrap();
  for _ in 0..(if thorough { 5000 } else { 400 }) {
    writeln!(
      out,
      "C16 kb {} K=p:{};alg:{};typ:{};kid:{};sig:{};cl:h={},n={},a={},iat={} O=mid:{};sc:{};n:{};a:{};e:{};l:{};now:{}",
      hdoc,
      r.pick(&[1, 1, 1, 0]),
      r.pick(&[1, 1, 1, 0]),
      r.pick(&["k", "k", "k", "s", "x", "~"]),
      r.pick(&["2.0.1", "2.0.1", "2.0.2", "5.0.1", "~", "X"]),
      r.pick(&[21, 21, 22, 51, 77]),
      r.pick(&[1, 1, 1, 2, 3]),
      r.pick(&[7, 7, 8]),
      r.pick(&[4, 4, 5]),
      r.pick(&[100i64, 49, 151, 253402300800]),
      r.pick(&["~", "~", "2.0.1", "2.0.2"]),
      r.pick(&["~", "~", "vm", "0"]),
      r.pick(&["7", "7", "~", "E"]),
      r.pick(&["4", "4", "~", "E"]),
      r.pick(&["50", "~"]),
      r.pick(&["150", "~"]),
      now
    )
    .unwrap();
  }
}
