import IdModel.Status.Model
import Driver.Util
namespace Driver.C12
open IdModel IdModel.Status

def showSErr : SErr → String
  | .indexOutOfBounds => "oob" | .invalidListSize => "size" | .unreversibleRevocation => "unrev"

def parseBool (s : String) : Option Bool := if s == "1" then some true else if s == "0" then some false else none

def runOps (l : List Nat) : List String → List String
  | [] => [s!"len={len l}"]
  | t :: ts =>
    match t.splitOn ":" with
    | ["s", i, v] =>
      match i.toNat?, parseBool v with
      | some i, some v =>
        match set l i v with
        | .ok l' => "ok" :: runOps l' ts
        | .err e => showSErr e :: runOps l ts
        | .panic _ => ["panic"]
      | _, _ => ["bad-op"]
    | ["g", i] =>
      match i.toNat? with
      | some i =>
        match get l i with
        | .ok b => (if b then "1" else "0") :: runOps l ts
        | .err e => showSErr e :: runOps l ts
        | .panic _ => ["panic"]
      | none => ["bad-op"]
    | _ => ["bad-op"]

def parsePurpose (s : String) : Option Purpose :=
  if s == "r" then some .revocation else if s == "s" then some .suspension else none

def showStatus : CredStatus → String
  | .revoked => "revoked" | .suspended => "suspended" | .valid => "valid"

def runCred (p : Purpose) (l : List Nat) : List String → List String
  | [] => []
  | t :: ts =>
    match t.splitOn ":" with
    | [k, i, v] =>
      if k == "e" || k == "c" then
        match i.toNat?, parseBool v with
        | some i, some v =>
          match setEntry p l i v with
          | .ok l' => "ok" :: runCred p l' ts
          | .err e => showSErr e :: runCred p l ts
          | .panic _ => ["panic"]
        | _, _ => ["bad-op"]
      else ["bad-op"]
    | ["q", i] =>
      match i.toNat? with
      | some i =>
        match entry p l i with
        | .ok s => showStatus s :: runCred p l ts
        | .err e => showSErr e :: runCred p l ts
        | .panic _ => ["panic"]
      | none => ["bad-op"]
    | _ => ["bad-op"]

def showV : VRes → String
  | .ok => "ok" | .invalidStatus => "invalid-status" | .revoked => "revoked" | .suspended => "suspended"
  | .panic => "panic"

def handle : List String → String
  | "ops" :: h :: rest =>
    match unhex h with
    | some l => " ".intercalate (runOps l (splitAt "|" rest).2)
    | none => "bad-request"
  | ["new", n] =>
    match n.toNat? with
    | some n => match new n with
      | .ok l => s!"ok:{len l}"
      | .err e => showSErr e
      | .panic _ => "panic"
    | none => "bad-request"
  | "big" :: n :: rest =>
    match n.toNat? with
    | some n => match new n with
      | .ok l => " ".intercalate (runOps l (splitAt "|" rest).2)
      | .err e => showSErr e
      | .panic _ => "panic"
    | none => "bad-request"
  | "cred" :: p :: h :: rest =>
    match parsePurpose p, unhex h with
    | some p, some l => " ".intercalate (runCred p l (splitAt "|" rest).2)
    | _, _ => "bad-request"
  | ["check", sc, st, idm, pc, pe, idx, h] =>
    let sc? : Option StatusCheck := if sc == "strict" then some .strict else if sc == "skipu" then some .skipUnsupported
      else if sc == "skipall" then some .skipAll else none
    match sc?, parsePurpose pc, parsePurpose pe, idx.toNat?, unhex h with
    | some sc, some pc, some pe, some idx, some l =>
      let credId := some "list"
      let entryUrl := if idm == "1" then "list" else "other"
      let status : Option (Option StatusEntry) :=
        if st == "none" then none else if st == "bad" then some none
        else some (some { listCredential := entryUrl, purpose := pe, index := idx })
      showV (checkStatus sc status credId pc l)
    | _, _, _, _, _ => "bad-request"
  | "roundtrip" :: _ => "ok"
  | "dense" :: _ => "ok"
  | _ => "bad-request"

end Driver.C12
