import IdModel.Val.Model
import IdModel.Doc.Resolve
import IdModel.Props.C04
/-!
# C02 — JWT credential validation accepts only when every checked condition holds

Property theorems only.  `IdModel.Val.Model` transliterates `parse_jwk`, `verify_signature_with_verifier` and
`validate_decoded_credential`; it resolves the verification method with the C04 document model, converts the claims
with the C07 model and checks the status with the C06 model.  The list and order of validation units is
regenerated from the source (`IdModel.Gen.C02`).
-/
namespace IdModel.Props.C02
open IdModel.Val IdModel.Doc IdModel.Vc IdModel.Bitmap

/-- a method resolved by a full id carries that DID and fragment and is embedded in the document -/
theorem resolve_did (d : Doc) (k : Id) (s : Option Scope) (m : Method) (h : resolveMethod d (Query.ofId k) s = some m) :
    m.id.did = k.did ∧ m.id.frag = k.frag ∧ k.frag ≠ none := by
  have hq : ∀ q' m', query Method.id d.vm q' = some m' → q'.matches m'.id = true :=
    fun q' m' h' => (query_some_mem _ _ _ _ h').2
  have fin : ∀ i : Id, (i.did = k.did ∧ i.frag = k.frag ∧ k.frag ≠ none) →
      ∀ m' : Method, (Query.ofId i).matches m'.id = true → m'.id.did = k.did ∧ m'.id.frag = k.frag ∧ k.frag ≠ none := by
    intro i hi m' hm
    obtain ⟨a, b, c⟩ := (matches_ofId i m'.id).1 hm
    exact ⟨a.trans hi.1, b.trans hi.2.1, hi.2.2⟩
  have base : ∀ m' : Method, (Query.ofId k).matches m'.id = true → m'.id.did = k.did ∧ m'.id.frag = k.frag ∧ k.frag ≠ none := by
    intro m' hm
    exact (matches_ofId k m'.id).1 hm
  cases s with
  | none =>
    simp only [resolveMethod, resolveMethodInner] at h
    cases hfr : firstRel d (Query.ofId k) (relList Gen.C04.resolveOrder) with
    | none => rw [hfr] at h; exact base m (hq _ _ h)
    | some e =>
      rw [hfr] at h
      obtain ⟨r, _, hqq⟩ := firstRel_some d _ e _ hfr
      have hem := (query_some_mem _ _ _ _ hqq).2
      cases e with
      | embed x =>
        simp only [Option.some.injEq] at h
        subst h
        exact base x hem
      | refer i =>
        simp only at h
        have hi := (matches_ofId k i).1 hem
        exact fin i hi m (hq _ _ h)
  | some sc =>
    cases sc with
    | vm => exact base m (hq _ _ h)
    | rel r =>
      simp only [resolveMethod] at h
      cases hqq : query MRef.id (d.getRel r) (Query.ofId k) with
      | none => rw [hqq] at h; cases h
      | some e =>
        rw [hqq] at h
        have hem := (query_some_mem _ _ _ _ hqq).2
        cases e with
        | embed x =>
          simp only [resolveMethodRef, Option.some.injEq] at h
          subst h
          exact base x hem
        | refer i =>
          simp only [resolveMethodRef] at h
          exact fin i ((matches_ofId k i).1 hem) m (hq _ _ h)

/-- whatever is resolved is a method embedded in the document -/
theorem resolve_embedded (d : Doc) (q : Query) (s : Option Scope) (m : Method)
    (h : resolveMethod d q s = some m) : m ∈ allMethods d := C04.resolve_sound d q s m h

/-- everything `verify_signature` establishes, for the method id `mid`, issuer document `doc`, verification
method `method` and claims set `cl` -/
structure VerifiedBy (docs : List Doc) (tok : Token) (o : VOpts) (c : Cred) (mid : Id) (doc : Doc) (method : Method)
    (cl : Claims) : Prop where
  /-- header nonce = configured nonce -/
  nonce : tok.nonce = o.nonce
  /-- the method id: the configured one, else the `kid` (which then is a DID URL) -/
  midSrc : o.methodId = some mid ∨ (o.methodId = none ∧ tok.kid = some (some mid))
  /-- the issuer document: a supplied document whose id is the method id's DID -/
  docIn : doc ∈ docs
  docId : doc.id = mid.did
  /-- a verification method of that document, resolved within the configured scope, carrying that DID -/
  resolved : resolveMethod doc (Query.ofId mid) o.scope = some method
  methodDid : method.id.did = doc.id
  /-- it holds a public key, and the signature verifies under that key -/
  hasKey : method.body ≠ 0
  sig : method.body = tok.sigKey
  /-- (SD-JWT: every supplied disclosure was accepted against the signed claims) -/
  sd : tok.sdOk = true
  /-- the credential is the one that was signed: the conversion of the token's claims -/
  clSrc : tok.claims = some cl
  conv : tryIntoCredential cl = .ok c
  /-- the credential's issuer is a DID, the DID of the verifying method -/
  issuerDidOk : tok.issuerIsDid = true
  issuerEq : issuerDid c.issuer = mid.did

def Verified (docs : List Doc) (tok : Token) (o : VOpts) (c : Cred) : Prop :=
  ∃ mid doc method cl, VerifiedBy docs tok o c mid doc method cl

theorem verify_sound (docs : List Doc) (tok : Token) (o : VOpts) (c : Cred)
    (h : verifySignature docs tok o = .ok c) : Verified docs tok o c := by
  unfold verifySignature at h
  by_cases hn : tok.nonce ≠ o.nonce
  · rw [if_pos hn] at h; cases h
  · rw [if_neg hn] at h
    have hn' : tok.nonce = o.nonce := by simpa using hn
    cases hm : methodIdOf tok o with
    | error e => rw [hm] at h; cases h
    | ok mid =>
      rw [hm] at h
      simp only at h
      have hsrc : o.methodId = some mid ∨ (o.methodId = none ∧ tok.kid = some (some mid)) := by
        unfold methodIdOf at hm
        cases ho : o.methodId with
        | some x => rw [ho] at hm; injection hm with hm; left; rw [hm]
        | none =>
          rw [ho] at hm
          right
          refine ⟨rfl, ?_⟩
          cases hk : tok.kid with
          | none => rw [hk] at hm; cases hm
          | some kk =>
            rw [hk] at hm
            cases kk with
            | none => cases hm
            | some i => injection hm with hm; rw [hm]
      cases hk : keyOf docs mid o.scope with
      | error e => rw [hk] at h; cases h
      | ok key =>
        rw [hk] at h
        simp only at h
        unfold keyOf at hk
        cases hf : docs.find? (fun d => d.id == mid.did) with
        | none => rw [hf] at hk; cases hk
        | some d =>
          rw [hf] at hk
          simp only at hk
          have hdin : d ∈ docs := List.mem_of_find?_eq_some hf
          have hdid : d.id = mid.did := by
            have := List.find?_some (p := fun d : Doc => d.id == mid.did) hf
            simpa using this
          cases hr : resolveMethod d (Query.ofId mid) o.scope with
          | none => rw [hr] at hk; cases hk
          | some m =>
            rw [hr] at hk
            simp only at hk
            by_cases hb : m.body = 0
            · rw [if_pos hb] at hk; cases hk
            · rw [if_neg hb] at hk
              injection hk with hk
              by_cases hs : key ≠ tok.sigKey
              · rw [if_pos hs] at h; cases h
              · rw [if_neg hs] at h
                have hs' : key = tok.sigKey := by simpa using hs
                have hsd' : tok.sdOk = true := by
                  cases hh : tok.sdOk with
                  | true => rfl
                  | false => rw [hh] at h; simp at h
                rw [hsd'] at h
                simp only [Bool.not_true, Bool.false_eq_true, ↓reduceIte] at h
                cases hc : tok.claims with
                | none => rw [hc] at h; cases h
                | some cl =>
                  rw [hc] at h
                  simp only at h
                  cases ht : tryIntoCredential cl with
                  | error e => rw [ht] at h; cases h
                  | ok c' =>
                    rw [ht] at h
                    simp only at h
                    by_cases hi : (!tok.issuerIsDid) = true
                    · rw [if_pos hi] at h; cases h
                    · rw [if_neg hi] at h
                      by_cases hx : issuerDid c'.issuer ≠ mid.did
                      · rw [if_pos hx] at h; cases h
                      · rw [if_neg hx] at h
                        injection h with h
                        subst h
                        exact ⟨mid, d, m, cl, ⟨hn', hsrc, hdin, hdid, hr,
                          ((resolve_did d mid o.scope m hr).1).trans hdid.symm, hb, hk.trans hs', hsd', hc, ht,
                          by simpa using hi, by simpa using hx⟩⟩

/-- the five validation units, as conditions -/
def UnitsHold (docs : List Doc) (tok : Token) (c : Cred) (o : VOpts) (service : Option (List Nat)) : Prop :=
  c.issuance ≤ o.latestIssuance ∧
  (∀ e, c.expiration = some e → o.earliestExpiry ≤ e) ∧
  (tok.ctxOk = true ∧ tok.typeOk = true ∧ ¬(c.subjectId = none ∧ tok.subjPropsEmpty = true)) ∧
  vSubjectHolder tok c o = true ∧
  checkStatus o.status tok.statusView (docs.any (fun d => d.id == issuerDid c.issuer)) service = .ok

theorem units_all : Gen.C02.units = ["issuance", "expiry", "structure", "subjectHolder", "status"] ∨
    (∀ n ∈ ["issuance", "expiry", "structure", "subjectHolder", "status"], n ∈ Gen.C02.units) := by
  right; decide

theorem unit_none_of_filter (docs : List Doc) (tok : Token) (c : Cred) (o : VOpts) (service : Option (List Nat))
    (h : (Gen.C02.units.filterMap (unit docs tok c o service)).isEmpty = true) (n : String) (hn : n ∈ Gen.C02.units) :
    unit docs tok c o service n = none := by
  cases hu : unit docs tok c o service n with
  | none => rfl
  | some e =>
    have : e ∈ Gen.C02.units.filterMap (unit docs tok c o service) := List.mem_filterMap.2 ⟨n, hn, hu⟩
    cases hl : Gen.C02.units.filterMap (unit docs tok c o service) with
    | nil => rw [hl] at this; cases this
    | cons a t => rw [hl] at h; cases h

/-- **accepted ⇒ every condition holds, simultaneously** -/
theorem accepted_sound (docs : List Doc) (tok : Token) (o : VOpts) (service : Option (List Nat)) (c : Cred)
    (h : validate docs tok o service = .ok c) :
    Verified docs tok o c ∧ UnitsHold docs tok c o service := by
  unfold validate at h
  cases hv : verifySignature docs tok o with
  | error e => rw [hv] at h; cases h
  | ok c' =>
    rw [hv] at h
    simp only at h
    unfold validateDecoded at h
    simp only at h
    by_cases he : (Gen.C02.units.filterMap (unit docs tok c' o service)).isEmpty = true
    · rw [if_pos he] at h
      injection h with h
      subst h
      refine ⟨verify_sound docs tok o c' hv, ?_⟩
      have hu := unit_none_of_filter docs tok c' o service he
      have u1 := hu "issuance" (by decide)
      have u2 := hu "expiry" (by decide)
      have u3 := hu "structure" (by decide)
      have u4 := hu "subjectHolder" (by decide)
      have u5 := hu "status" (by decide)
      simp only [unit] at u1 u2 u3 u4 u5
      refine ⟨?_, ?_, ?_, ?_, ?_⟩
      · by_cases hb : vIssuance c' o = true
        · simpa [vIssuance] using hb
        · simp [hb] at u1
      · intro e hee
        by_cases hb : vExpiry c' o = true
        · simpa [vExpiry, hee] using hb
        · simp [hb] at u2
      · by_cases hb : vStructure tok c' = true
        · unfold vStructure at hb
          simp only [Bool.and_eq_true, Bool.not_eq_true', Bool.and_eq_false_iff] at hb
          refine ⟨hb.1.1, hb.1.2, ?_⟩
          rintro ⟨h1, h2⟩
          rcases hb.2 with h3 | h3
          · simp [h1] at h3
          · rw [h2] at h3; cases h3
        · simp [hb] at u3
      · by_cases hb : vSubjectHolder tok c' o = true
        · exact hb
        · simp [hb] at u4
      · cases hs : checkStatus o.status tok.statusView (docs.any (fun d => d.id == issuerDid c'.issuer)) service with
        | ok => rfl
        | invalidStatus => rw [hs] at u5; cases u5
        | documentMismatch => rw [hs] at u5; cases u5
        | serviceLookup => rw [hs] at u5; cases u5
        | revoked => rw [hs] at u5; cases u5
    · rw [if_neg he] at h; cases h

/-- **the credential returned is the one that was signed** -/
theorem accepted_is_signed (docs : List Doc) (tok : Token) (o : VOpts) (service : Option (List Nat)) (c : Cred)
    (h : validate docs tok o service = .ok c) : ∃ cl, tok.claims = some cl ∧ tryIntoCredential cl = .ok c := by
  obtain ⟨_, _, _, cl, v⟩ := (accepted_sound docs tok o service c h).1
  exact ⟨cl, v.clSrc, v.conv⟩

/-- **unless status checking is relaxed, an accepted credential's index is not set in the issuer's bitmap** -/
theorem accepted_not_revoked (docs : List Doc) (tok : Token) (o : VOpts) (s : List Nat) (c : Cred) (st : StatusView) (n : Nat)
    (h : validate docs tok o (some s) = .ok c) (hsc : o.status ≠ .skipAll) (hst : tok.statusView = some st)
    (hty : st.typeIsBitmap = true) (hidx : statusIndex st = some n) : n ∉ s := by
  have hu := (accepted_sound docs tok o (some s) c h).2.2.2.2.2
  unfold checkStatus at hu
  have : (o.status == StatusCheck.skipAll) = false := by
    cases hh : o.status <;> simp_all
  rw [this, hst] at hu
  simp only [Bool.false_eq_true, ↓reduceIte, hty, Bool.not_true, hidx] at hu
  intro hin
  split at hu
  · cases hu
  · split at hu
    · cases hu
    · simp [hin] at hu

/-- **a failing condition yields an error**: if signature verification fails, that error; otherwise the errors of
the failing units — all of them, in order, when all errors are requested, the first when failing fast -/
theorem rejected_errors (docs : List Doc) (tok : Token) (o : VOpts) (service : Option (List Nat)) :
    (∀ e, verifySignature docs tok o = .error e → validate docs tok o service = .error [e]) ∧
    (∀ c, verifySignature docs tok o = .ok c →
      let errs := Gen.C02.units.filterMap (unit docs tok c o service)
      (errs = [] → validate docs tok o service = .ok c) ∧
      (errs ≠ [] → o.failFast = false → validate docs tok o service = .error errs) ∧
      (errs ≠ [] → o.failFast = true → validate docs tok o service = .error (errs.take 1))) := by
  constructor
  · intro e h; unfold validate; rw [h]
  · intro c h
    simp only
    unfold validate validateDecoded
    rw [h]
    simp only
    refine ⟨?_, ?_, ?_⟩
    · intro he; rw [he]; rfl
    · intro hne hf
      have : (Gen.C02.units.filterMap (unit docs tok c o service)).isEmpty = false := by
        cases hh : Gen.C02.units.filterMap (unit docs tok c o service) with
        | nil => exact absurd hh hne
        | cons => rfl
      rw [this, hf]; rfl
    · intro hne hf
      have : (Gen.C02.units.filterMap (unit docs tok c o service)).isEmpty = false := by
        cases hh : Gen.C02.units.filterMap (unit docs tok c o service) with
        | nil => exact absurd hh hne
        | cons => rfl
      rw [this, hf]; rfl

/-- each unit's error is in the list exactly when its condition fails (all-errors mode lists every failing one) -/
theorem unit_error_iff (docs : List Doc) (tok : Token) (c : Cred) (o : VOpts) (service : Option (List Nat)) :
    (VErr.issuanceDate ∈ Gen.C02.units.filterMap (unit docs tok c o service) ↔ ¬ c.issuance ≤ o.latestIssuance) ∧
    (VErr.expirationDate ∈ Gen.C02.units.filterMap (unit docs tok c o service) ↔ vExpiry c o = false) ∧
    (VErr.structure ∈ Gen.C02.units.filterMap (unit docs tok c o service) ↔ vStructure tok c = false) ∧
    (VErr.subjectHolder ∈ Gen.C02.units.filterMap (unit docs tok c o service) ↔ vSubjectHolder tok c o = false) := by
  have hu : Gen.C02.units = ["issuance", "expiry", "structure", "subjectHolder", "status"] := rfl
  rw [hu]
  simp only [List.filterMap_cons, List.filterMap_nil, unit]
  refine ⟨?_, ?_, ?_, ?_⟩
  · cases h1 : vIssuance c o <;> cases h2 : vExpiry c o <;> cases h3 : vStructure tok c <;>
      cases h4 : vSubjectHolder tok c o <;>
      cases h5 : checkStatus o.status tok.statusView (docs.any (fun d => d.id == issuerDid c.issuer)) service <;>
      simp_all [vIssuance]
  · cases h1 : vIssuance c o <;> cases h2 : vExpiry c o <;> cases h3 : vStructure tok c <;>
      cases h4 : vSubjectHolder tok c o <;>
      cases h5 : checkStatus o.status tok.statusView (docs.any (fun d => d.id == issuerDid c.issuer)) service <;>
      simp_all
  · cases h1 : vIssuance c o <;> cases h2 : vExpiry c o <;> cases h3 : vStructure tok c <;>
      cases h4 : vSubjectHolder tok c o <;>
      cases h5 : checkStatus o.status tok.statusView (docs.any (fun d => d.id == issuerDid c.issuer)) service <;>
      simp_all
  · cases h1 : vIssuance c o <;> cases h2 : vExpiry c o <;> cases h3 : vStructure tok c <;>
      cases h4 : vSubjectHolder tok c o <;>
      cases h5 : checkStatus o.status tok.statusView (docs.any (fun d => d.id == issuerDid c.issuer)) service <;>
      simp_all

/-! ## non-vacuity: a token that is accepted, and the same token with each single condition broken -/

def issuerDoc : Doc := ⟨1, [⟨⟨1, 0, some 1⟩, 11⟩], [.refer ⟨1, 0, some 1⟩], [], [], [], [], []⟩
def goodClaims : Claims := ⟨some 1000, .url 1, none, some 100, some 1, some 2, ⟨none, none, none, none, none, 0⟩, none⟩
def goodTok : Token := ⟨some (some ⟨1, 0, some 1⟩), none, 11, some goodClaims, true, true, true, false, none,
  some ⟨true, some (some (some 7)), [some 7], true⟩, true⟩
def goodOpts : VOpts := ⟨none, none, some (.rel .auth), 500, 200, some (2, .alwaysSubject), .strict, false⟩

deriving instance DecidableEq for Except

example : validate [issuerDoc] goodTok goodOpts (some [5, 9]) = .ok ⟨some 1, .url 1, 100, some 1000, some 2, 0⟩ := by
  decide +kernel
example : validate [issuerDoc] goodTok goodOpts (some [5, 7]) = .error [.status .revoked] := by decide +kernel
example : validate [issuerDoc] { goodTok with sigKey := 12 } goodOpts (some []) = .error [.signature] := by decide +kernel
example : validate [issuerDoc] goodTok { goodOpts with scope := some (.rel .asrt) } (some []) = .error [.methodLookup] := by
  decide +kernel
example : validate [issuerDoc] goodTok { goodOpts with latestIssuance := 99, earliestExpiry := 1001 } (some []) =
    .error [.issuanceDate, .expirationDate] := by decide +kernel

end IdModel.Props.C02
