import IdModel.IotaDid.Model
import IdModel.Did.Lemmas
/-! Helper lemmas for C17. -/
namespace IdModel.IotaDid
open IdModel IdModel.Did IdModel.Gen.C17 IdModel.Gen.C10

/-! ### splitting at the first colon -/

theorem denorm_nocolon (mid : Str) (h : 58 ∉ mid) : denorm mid = (defaultNetwork, mid) := by
  unfold denorm
  have : mid.findIdx? (· == 58) = none := by
    rw [List.findIdx?_eq_none_iff]
    intro x hx; simp; intro he; exact h (he ▸ hx)
  rw [this]

theorem denorm_append (n t : Str) (hn : 58 ∉ n) : denorm (n ++ 58 :: t) = (n, t) := by
  unfold denorm
  have : (n ++ 58 :: t).findIdx? (· == 58) = some n.length := by
    rw [List.findIdx?_eq_some_iff_getElem]
    refine ⟨by simp, by simp, ?_⟩
    intro j hj
    rw [List.getElem_append_left hj]
    simp; intro he; exact hn (he ▸ List.getElem_mem hj)
  rw [this]
  simp

theorem denorm_cases (mid : Str) :
    (58 ∉ mid ∧ denorm mid = (defaultNetwork, mid)) ∨
    (∃ n t, mid = n ++ 58 :: t ∧ 58 ∉ n ∧ denorm mid = (n, t)) := by
  by_cases h : 58 ∈ mid
  · right
    obtain ⟨n, t, hmid, hn⟩ : ∃ n t, mid = n ++ 58 :: t ∧ 58 ∉ n := by
      induction mid with
      | nil => cases h
      | cons c r ih =>
        by_cases hc : c = 58
        · exact ⟨[], r, by simp [hc], by simp⟩
        · have hr : 58 ∈ r := by
            rcases List.mem_cons.1 h with h1 | h1
            · exact absurd h1.symm hc
            · exact h1
          obtain ⟨n, t, e, hn⟩ := ih hr
          refine ⟨c :: n, t, by simp [e], ?_⟩
          intro hm
          rcases List.mem_cons.1 hm with h1 | h1
          · exact hc h1.symm
          · exact hn h1
    exact ⟨n, t, hmid, hn, hmid ▸ denorm_append n t hn⟩
  · left; exact ⟨h, denorm_nocolon mid h⟩

/-! ### hexadecimal -/

def IsLowerHex (c : Nat) : Prop := (48 ≤ c ∧ c ≤ 57) ∨ (97 ≤ c ∧ c ≤ 102)
def IsHexChar (c : Nat) : Prop := IsLowerHex c ∨ (65 ≤ c ∧ c ≤ 70)

theorem hexVal_some (c v : Nat) (h : hexVal c = some v) : IsHexChar c ∧ v < 16 := by
  unfold hexVal at h
  unfold IsHexChar IsLowerHex
  split at h
  · rename_i h1; simp only [Bool.and_eq_true, decide_eq_true_eq] at h1
    injection h with h; omega
  · split at h
    · rename_i h1; simp only [Bool.and_eq_true, decide_eq_true_eq] at h1
      injection h with h; omega
    · split at h
      · rename_i h1; simp only [Bool.and_eq_true, decide_eq_true_eq] at h1
        injection h with h; omega
      · cases h

theorem hexDecodeAux_cons (a b : Nat) (r : Str) (bs : List Nat)
    (h : hexDecodeAux (a :: b :: r) = some bs) :
    ∃ x y t, hexVal a = some x ∧ hexVal b = some y ∧ hexDecodeAux r = some t ∧ bs = (x * 16 + y) :: t := by
  unfold hexDecodeAux at h
  cases ha : hexVal a with
  | none => simp [ha] at h
  | some x =>
    cases hb : hexVal b with
    | none => simp [ha, hb] at h
    | some y =>
      cases hr : hexDecodeAux r with
      | none => simp [ha, hb, hr] at h
      | some t =>
        simp only [ha, hb, hr, Option.some.injEq] at h
        exact ⟨x, y, t, rfl, rfl, rfl, h.symm⟩

theorem hexDecodeAux_spec (r : Str) (bs : List Nat) (h : hexDecodeAux r = some bs) :
    (∀ c ∈ r, IsHexChar c) ∧ r.length = 2 * bs.length ∧ ∀ b ∈ bs, b < 256 := by
  induction bs generalizing r with
  | nil =>
    match r, h with
    | [], _ => simp
    | [a], h => simp [hexDecodeAux] at h
    | a :: b :: r', h =>
      obtain ⟨x, y, t, _, _, _, e⟩ := hexDecodeAux_cons a b r' [] h
      cases e
  | cons v t ih =>
    match r, h with
    | [], h => simp [hexDecodeAux] at h
    | [a], h => simp [hexDecodeAux] at h
    | a :: b :: r', h =>
      obtain ⟨x, y, t', ha, hb, hr, e⟩ := hexDecodeAux_cons a b r' (v :: t) h
      injection e with e1 e2
      subst e2
      obtain ⟨i1, i2, i3⟩ := ih r' hr
      obtain ⟨ca, xa⟩ := hexVal_some a x ha
      obtain ⟨cb, yb⟩ := hexVal_some b y hb
      refine ⟨?_, by simp; omega, ?_⟩
      · intro c hc
        simp only [List.mem_cons] at hc
        rcases hc with hc | hc | hc
        · subst hc; exact ca
        · subst hc; exact cb
        · exact i1 c hc
      · intro w hw
        rcases List.mem_cons.1 hw with hw | hw
        · subst hw; omega
        · exact i3 w hw

theorem hexVal_hexDigit (v : Nat) (h : v < 16) : hexVal (hexDigit v) = some v := by
  unfold hexDigit hexVal
  by_cases h1 : v < 10
  · have : (decide (48 ≤ 48 + v) && decide (48 + v ≤ 57)) = true := by
      simp only [Bool.and_eq_true, decide_eq_true_eq]; omega
    simp only [h1, ↓reduceIte, this]
    congr 1; omega
  · have a1 : (decide (48 ≤ 87 + v) && decide (87 + v ≤ 57)) = false := by
      simp only [Bool.and_eq_false_iff, decide_eq_false_iff_not]; right; omega
    have a2 : (decide (97 ≤ 87 + v) && decide (87 + v ≤ 102)) = true := by
      simp only [Bool.and_eq_true, decide_eq_true_eq]; omega
    simp only [h1, ↓reduceIte, a1, Bool.false_eq_true, a2]
    congr 1; omega

theorem hexDigit_lower (v : Nat) (h : v < 16) : IsLowerHex (hexDigit v) := by
  unfold hexDigit IsLowerHex; split <;> omega

/-- decode ∘ encode = id on byte lists -/
theorem hexDecodeAux_encode (bs : List Nat) (h : ∀ b ∈ bs, b < 256) :
    hexDecodeAux (bs.flatMap fun b => [hexDigit (b / 16), hexDigit (b % 16)]) = some bs := by
  induction bs with
  | nil => rfl
  | cons b r ih =>
    have hb := h b List.mem_cons_self
    simp only [List.flatMap_cons, List.cons_append, List.nil_append]
    unfold hexDecodeAux
    rw [hexVal_hexDigit _ (by omega), hexVal_hexDigit _ (by omega),
      ih (fun x hx => h x (List.mem_cons_of_mem _ hx))]
    simp only
    congr 2; omega

theorem encode_length (bs : List Nat) :
    (bs.flatMap fun b => [hexDigit (b / 16), hexDigit (b % 16)]).length = 2 * bs.length := by
  induction bs with
  | nil => rfl
  | cons b r ih => simp [List.flatMap_cons, ih]; omega

theorem prefixHexDecode_encode (bs : List Nat) (h : ∀ b ∈ bs, b < 256) :
    prefixHexDecode bs.length (prefixHexEncode bs) = some bs := by
  unfold prefixHexEncode prefixHexDecode hexDecode
  simp only [encode_length, ↓reduceIte]
  exact hexDecodeAux_encode bs h

/-- on lower-case digits, decoding is injective -/
theorem hexVal_inj_lower (a b : Nat) (ha : IsLowerHex a) (hb : IsLowerHex b)
    (h : hexVal a = hexVal b) : a = b := by
  unfold IsLowerHex at ha hb
  unfold hexVal at h
  rcases ha with ha | ha <;> rcases hb with hb | hb
  · have e1 : (decide (48 ≤ a) && decide (a ≤ 57)) = true := by simp [ha.1, ha.2]
    have e2 : (decide (48 ≤ b) && decide (b ≤ 57)) = true := by simp [hb.1, hb.2]
    simp only [e1, e2, ↓reduceIte, Option.some.injEq] at h; omega
  · have e1 : (decide (48 ≤ a) && decide (a ≤ 57)) = true := by simp [ha.1, ha.2]
    have e2 : (decide (48 ≤ b) && decide (b ≤ 57)) = false := by
      simp only [Bool.and_eq_false_iff, decide_eq_false_iff_not]; right; omega
    have e3 : (decide (97 ≤ b) && decide (b ≤ 102)) = true := by simp [hb.1, hb.2]
    simp only [e1, e2, e3, ↓reduceIte, Bool.false_eq_true, Option.some.injEq] at h; omega
  · have e1 : (decide (48 ≤ b) && decide (b ≤ 57)) = true := by simp [hb.1, hb.2]
    have e2 : (decide (48 ≤ a) && decide (a ≤ 57)) = false := by
      simp only [Bool.and_eq_false_iff, decide_eq_false_iff_not]; right; omega
    have e3 : (decide (97 ≤ a) && decide (a ≤ 102)) = true := by simp [ha.1, ha.2]
    simp only [e1, e2, e3, ↓reduceIte, Bool.false_eq_true, Option.some.injEq] at h; omega
  · have e2 : (decide (48 ≤ a) && decide (a ≤ 57)) = false := by
      simp only [Bool.and_eq_false_iff, decide_eq_false_iff_not]; right; omega
    have e3 : (decide (97 ≤ a) && decide (a ≤ 102)) = true := by simp [ha.1, ha.2]
    have f2 : (decide (48 ≤ b) && decide (b ≤ 57)) = false := by
      simp only [Bool.and_eq_false_iff, decide_eq_false_iff_not]; right; omega
    have f3 : (decide (97 ≤ b) && decide (b ≤ 102)) = true := by simp [hb.1, hb.2]
    simp only [e2, e3, f2, f3, ↓reduceIte, Bool.false_eq_true, Option.some.injEq] at h; omega

theorem hexDecodeAux_inj_lower (r1 r2 : Str) (bs : List Nat)
    (h1 : hexDecodeAux r1 = some bs) (h2 : hexDecodeAux r2 = some bs)
    (l1 : ∀ c ∈ r1, IsLowerHex c) (l2 : ∀ c ∈ r2, IsLowerHex c) : r1 = r2 := by
  induction bs generalizing r1 r2 with
  | nil =>
    have e1 := (hexDecodeAux_spec r1 [] h1).2.1
    have e2 := (hexDecodeAux_spec r2 [] h2).2.1
    simp at e1 e2
    rw [e1, e2]
  | cons v t ih =>
    match r1, h1, l1 with
    | [], h1, _ => simp [hexDecodeAux] at h1
    | [a], h1, _ => simp [hexDecodeAux] at h1
    | a :: b :: r, h1, l1 =>
      match r2, h2, l2 with
      | [], h2, _ => simp [hexDecodeAux] at h2
      | [a'], h2, _ => simp [hexDecodeAux] at h2
      | a' :: b' :: r', h2, l2 =>
        obtain ⟨x, y, t1, ha, hb, hr, e⟩ := hexDecodeAux_cons a b r (v :: t) h1
        obtain ⟨x', y', t2, ha', hb', hr', e'⟩ := hexDecodeAux_cons a' b' r' (v :: t) h2
        injection e with e1 e2
        injection e' with e1' e2'
        subst e2; subst e2'
        have xa := (hexVal_some a x ha).2
        have yb := (hexVal_some b y hb).2
        have xa' := (hexVal_some a' x' ha').2
        have yb' := (hexVal_some b' y' hb').2
        have ex : x = x' := by omega
        have ey : y = y' := by omega
        have f1 : a = a' := hexVal_inj_lower a a' (l1 a (by simp)) (l2 a' (by simp))
          (by rw [ha, ha', ex])
        have f2 : b = b' := hexVal_inj_lower b b' (l1 b (by simp)) (l2 b' (by simp))
          (by rw [hb, hb', ey])
        have f3 : r = r' := ih r r' hr hr'
          (fun c hc => l1 c (by simp [hc])) (fun c hc => l2 c (by simp [hc]))
        rw [f1, f2, f3]

end IdModel.IotaDid
