import IdModel.KeyStore.Model
import Driver.Util
/-! Line-protocol handler for C15 (key store histories). See harness/src/c15.rs for the request grammar. -/
namespace Driver.C15
open IdModel.KeyStore

def parseKt (t : String) : KType := if t == "ed" then .ed25519 else if t == "bls" then .bls else .other
def parseAlg (t : String) : Alg := if t == "EdDSA" then .edDSA else if t == "ES256" then .other 1 else .other 2
def parseFam (t : String) : Fam :=
  if t == "ed" then .okpEd25519 else if t == "e448" then .okpOtherEd else if t == "x255" then .okpNonEd
  else if t == "bls" then .ecBls else if t == "p256" then .ecOther else .otherKty
def parseJwkAlg (t : String) : Option (Option Alg) :=
  if t == "~" then none else if t == "EdDSA" then some (some .edDSA) else if t == "ES256" then some (some (.other 1))
  else some none

def showKErr : KErr → String
  | .unsupportedKeyType => "unsupportedKeyType" | .keyAlgMismatch => "keyAlgMismatch" | .unsupportedAlg => "unsupportedAlg"
  | .notPrivate => "notPrivate" | .keyNotFound => "keyNotFound" | .unspecified => "unspecified"

structure St where
  store : Store
  kids : KidStore

def runOps (st : St) : List String → List String
  | [] => []
  | t :: ts =>
    match t.splitOn ":" with
    | ["g", kt, alg] =>
      let r := generate st.store (parseKt kt) (parseAlg alg)
      (match r.2 with
       | .ok o => s!"ok:{o.id}"
       | .error e => "err:" ++ showKErr e) :: runOps { st with store := r.1 } ts
    | ["i", fam, pr, alg, dok, v] =>
      match v.toNat? with
      | none => ["bad-op"]
      | some v =>
        let priv := pr == "1" && fam != "oct"
        let j : Jwk := ⟨parseFam fam, priv, parseJwkAlg alg, (if priv && dok == "1" then some (100 + v) else none), 100 + v⟩
        let r := insert st.store j
        (match r.2 with
         | .ok id => s!"ok:{id}"
         | .error e => "err:" ++ showKErr e) :: runOps { st with store := r.1 } ts
    | ["s", n, data, fam, alg] =>
      match n.toNat?, data.toNat? with
      | some n, some d =>
        let pk : Jwk := ⟨parseFam fam, false, parseJwkAlg alg, none, 0⟩
        (match sign st.store n d pk with
         | .ok sg => s!"ok:{sg.secret}"
         | .error e => "err:" ++ showKErr e) :: runOps st ts
      | _, _ => ["bad-op"]
    | ["d", n] =>
      match n.toNat? with
      | some n =>
        let r := delete st.store n
        (match r.2 with
         | .ok _ => "ok"
         | .error e => "err:" ++ showKErr e) :: runOps { st with store := r.1 } ts
      | none => ["bad-op"]
    | ["dr", n, t] =>
      -- t simultaneous deletions of one key id: under the store's write lock they are t deletions in some order
      match n.toNat?, t.toNat? with
      | some n, some t =>
        let fin := deleteN st.store n t
        s!"ok={fin.2};fail={t - fin.2}" :: runOps { st with store := fin.1 } ts
      | _, _ => ["bad-op"]
    | ["e", n] =>
      match n.toNat? with
      | some n => (if «exists» st.store n then "1" else "0") :: runOps st ts
      | none => ["bad-op"]
    | ["ki", dg, n] =>
      match dg.toNat?, n.toNat? with
      | some dg, some n =>
        let r := insertKid st.kids dg n
        (match r.2 with
         | .ok _ => "ok"
         | .error _ => "err:alreadyExists") :: runOps { st with kids := r.1 } ts
      | _, _ => ["bad-op"]
    | ["kg", dg] =>
      match dg.toNat? with
      | some dg =>
        (match getKid st.kids dg with
         | .ok k => s!"ok:{k}"
         | .error _ => "err:notFound") :: runOps st ts
      | none => ["bad-op"]
    | ["kd", dg] =>
      match dg.toNat? with
      | some dg =>
        let r := deleteKid st.kids dg
        (match r.2 with
         | .ok _ => "ok"
         | .error _ => "err:notFound") :: runOps { st with kids := r.1 } ts
      | none => ["bad-op"]
    | ["kr", dg, n] =>
      match dg.toNat?, n.toNat? with
      | some dg, some n =>
        let r := race st.kids dg ((List.range n).map (· + 201))
        let oks := (r.2.filter (fun x => match x with | .ok _ => true | .error _ => false)).length
        -- the winner's key id is whichever thread obtained the lock first: after the race the digest is hidden from
        -- later `kg` comparisons by deleting and re-inserting a fixed id is not needed: the harness never reads it back
        s!"ok={oks};fail={n - oks};consistent=1" :: runOps { st with kids := r.1 } ts
      | _, _ => ["bad-op"]
    | _ => ["bad-op"]

/-- the same histories against the model of the Stronghold-backed store; error kinds are collapsed -/
def runOpsS (st : St) : List String → List String
  | [] => []
  | t :: ts =>
    match t.splitOn ":" with
    | ["g", kt, alg] =>
      let r := generateS st.store (parseKt kt) (parseAlg alg)
      (match r.2 with
       | .ok o => s!"ok:{o.id}"
       | .error _ => "err") :: runOpsS { st with store := r.1 } ts
    | ["i", fam, pr, alg, dok, v] =>
      match v.toNat? with
      | none => ["bad-op"]
      | some v =>
        let priv := pr == "1" && fam != "oct"
        let j : Jwk := ⟨parseFam fam, priv, parseJwkAlg alg, (if priv && dok == "1" then some (100 + v) else none), 100 + v⟩
        let r := insertS st.store j
        (match r.2 with
         | .ok id => s!"ok:{id}"
         | .error _ => "err") :: runOpsS { st with store := r.1 } ts
    | ["s", n, data, fam, alg] =>
      match n.toNat?, data.toNat? with
      | some n, some d =>
        let pk : Jwk := ⟨parseFam fam, false, parseJwkAlg alg, none, 0⟩
        (match sign st.store n d pk with
         | .ok sg => s!"ok:{sg.secret}"
         | .error _ => "err") :: runOpsS st ts
      | _, _ => ["bad-op"]
    | ["d", n] =>
      match n.toNat? with
      | some n =>
        let r := deleteS st.store n
        (match r.2 with
         | .ok _ => "ok"
         | .error _ => "err") :: runOpsS { st with store := r.1 } ts
      | none => ["bad-op"]
    | ["e", n] =>
      match n.toNat? with
      | some n => (if «exists» st.store n then "1" else "0") :: runOpsS st ts
      | none => ["bad-op"]
    | ["ki", dg, n] =>
      match dg.toNat?, n.toNat? with
      | some dg, some n =>
        let r := insertKid st.kids dg n
        (match r.2 with
         | .ok _ => "ok"
         | .error _ => "err") :: runOpsS { st with kids := r.1 } ts
      | _, _ => ["bad-op"]
    | ["kg", dg] =>
      match dg.toNat? with
      | some dg =>
        (match getKid st.kids dg with
         | .ok k => s!"ok:{k}"
         | .error _ => "err") :: runOpsS st ts
      | none => ["bad-op"]
    | ["kd", dg] =>
      match dg.toNat? with
      | some dg =>
        let r := deleteKid st.kids dg
        (match r.2 with
         | .ok _ => "ok"
         | .error _ => "err") :: runOpsS { st with kids := r.1 } ts
      | none => ["bad-op"]
    | ["kr", dg, n] =>
      match dg.toNat?, n.toNat? with
      | some dg, some n =>
        let r := race st.kids dg ((List.range n).map (· + 201))
        let oks := (r.2.filter (fun x => match x with | .ok _ => true | .error _ => false)).length
        s!"ok={oks};fail={n - oks};consistent=1" :: runOpsS { st with kids := r.1 } ts
      | _, _ => ["bad-op"]
    | _ => ["bad-op"]

def handle (args : List String) : String :=
  match args with
  | "hist" :: ops => " ".intercalate (runOps ⟨⟨[], 0⟩, []⟩ ops)
  | "shist" :: ops => " ".intercalate (runOpsS ⟨⟨[], 0⟩, []⟩ ops)
  | _ => "bad-request"

end Driver.C15
