import IdModel.Jose.Verifier
/-! Helper lemmas about guard chains (`firstFail`). -/
namespace IdModel.Jose.Verifier

theorem firstFail_ok (gs : List (Bool × Err)) : firstFail gs = .ok () ↔ ∀ g ∈ gs, g.1 = false := by
  induction gs with
  | nil => simp [firstFail]
  | cons g r ih =>
    obtain ⟨b, e⟩ := g
    cases b <;> simp [firstFail, ih]

theorem firstFail_err (gs : List (Bool × Err)) (e : Err) (h : firstFail gs = .error e) : ∃ g ∈ gs, g.1 = true ∧ g.2 = e := by
  induction gs with
  | nil => cases h
  | cons g r ih =>
    obtain ⟨b, e'⟩ := g
    cases b with
    | true => simp only [firstFail, if_true] at h; injection h with h; exact ⟨_, List.mem_cons_self, rfl, h⟩
    | false =>
      simp only [firstFail, Bool.false_eq_true, if_false] at h
      obtain ⟨g, hg, a, b⟩ := ih h
      exact ⟨g, List.mem_cons_of_mem _ hg, a, b⟩

end IdModel.Jose.Verifier
