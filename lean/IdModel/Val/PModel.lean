import IdModel.Doc.Model
import IdModel.Vc.Model
/-!
Model of `JwtPresentationValidator::validate` (property C03): `CoreDocument::verify_jws` over the C04 document model
(nonce, `kid` or configured method id as a query, scope, key material, signature), the holder binding, the two date
checks and the `vp` consistency check of the C07 model.  The signature scheme is a parameter, as in C02.
-/
namespace IdModel.Val
open IdModel.Doc IdModel.Vc IdModel.Time

structure PTok where
  /-- `kid` of the protected header as a query (`none`: absent) -/
  kid : Option Query
  nonce : Option Nat
  sigKey : Nat
  claims : Option PClaims
  /-- the `iss` claim is a DID -/
  issIsDid : Bool

structure PVOpts where
  nonce : Option Nat
  methodId : Option Id
  scope : Option Scope
  earliestExpiry : Int
  latestIssuance : Int

inductive PVErr
  | nonce | kidMissing | methodNotFound | keyMaterial | signature | claimsJson | signerUrl | documentMismatch
  | timestamp | expirationDate | issuanceDate | claims (e : PErr)
  deriving DecidableEq, Repr

/-- the query the method is looked up with: the configured method id, else the `kid` -/
def queryOf (tok : PTok) (o : PVOpts) : Option Query :=
  match o.methodId with
  | some m => some (Query.ofId m)
  | none => tok.kid

/-- `exp` as a `Timestamp` -/
def parseExp (cl : PClaims) : Except PVErr (Option Int) :=
  match cl.exp with
  | none => .ok none
  | some e =>
    match fromUnix e with
    | .ok v => .ok (some v)
    | _ => .error .timestamp

/-- the issuance date, when `iat` or `nbf` is present -/
def parseIssuance (cl : PClaims) : Except PVErr (Option Int) :=
  match cl.iat, cl.nbf with
  | none, none => .ok none
  | i, n =>
    match toIssuanceDate i n with
    | .ok d => .ok (some d)
    | .error _ => .error .timestamp

def expiryOk (o : PVOpts) : Option Int → Bool
  | none => true
  | some e => decide (o.earliestExpiry ≤ e)

def issuanceOk (o : PVOpts) : Option Int → Bool
  | none => true
  | some d => decide (d ≤ o.latestIssuance)

/-- `CoreDocument::verify_jws`: the key the signature is checked against -/
def verifyJws (doc : Doc) (tok : PTok) (o : PVOpts) : Except PVErr Unit :=
  if tok.nonce ≠ o.nonce then .error .nonce else
  match queryOf tok o with
  | none => .error .kidMissing
  | some q =>
    match resolveMethod doc q o.scope with
    | none => .error .methodNotFound
    | some m =>
      if m.body = 0 then .error .keyMaterial
      else if m.body ≠ tok.sigKey then .error .signature
      else .ok ()

/-- `JwtPresentationValidator::validate`: the presentation and the values read back beside it -/
def validateP (doc : Doc) (tok : PTok) (o : PVOpts) : Except PVErr (Pres × POpts) :=
  match verifyJws doc tok o with
  | .error e => .error e
  | .ok _ =>
    match tok.claims with
    | none => .error .claimsJson
    | some cl =>
      if !tok.issIsDid then .error .signerUrl
      else if cl.iss ≠ doc.id then .error .documentMismatch
      else
        match parseExp cl with
        | .error e => .error e
        | .ok ex =>
          if !expiryOk o ex then .error .expirationDate
          else
            match parseIssuance cl with
            | .error e => .error e
            | .ok is =>
              if !issuanceOk o is then .error .issuanceDate
              else
                match tryIntoPresentation cl with
                | .error e => .error (.claims e)
                | .ok p => .ok (p, ⟨ex, is, cl.aud, cl.custom⟩)

end IdModel.Val
