import IdModel.Jose.Jws
import IdModel.Jose.Verifier
import Driver.Util
import Driver.C11
namespace Driver.C01
open IdModel IdModel.Jose

/-- toy MAC shared with the harness' stub verifier: `[key id, Σ mᵢ, Σ i·mᵢ, len]` (mod 256) -/
def toyMac (k : Nat) (m : Bytes) : Bytes :=
  let s1 := m.foldl (· + ·) 0
  let s2 := (m.zipIdx.foldl (fun acc p => acc + (p.2 + 1) * p.1) 0)
  [k % 256, s1 % 256, s2 % 256, m.length % 256]

def V (_alg : String) (key : Key) (msg sig : Bytes) : Bool := sig == toyMac key.id msg

def optBytes (t : String) : Option (Option Bytes) := if t == "~" then some none else (unhex t).map some

/-- `k:<id>:<alg|->` -/
def parseKey (t : String) : Option Key :=
  match t.splitOn ":" with
  | ["k", i, a] => i.toNat?.map fun n => { alg := if a == "-" then none else some a, id := n }
  | _ => none

/-- header parse table entries `P=<hex json>=<Hspec>`; anything not listed does not parse -/
def parseTable (ts : List String) : Option (List (Bytes × Hdr)) :=
  ts.mapM fun t =>
    match t.splitOn "=" with
    | "P" :: h :: rest =>
      match unhex h, Driver.C11.parseHdr ("=".intercalate rest) with
      | some b, some (some hd) => some (b, hd)
      | _, _ => none
    | _ => none

def mkP (tab : List (Bytes × Hdr)) (b : Bytes) : Option Hdr := (tab.find? (·.1 == b)).map (·.2)

def showItem (it : Item) (key : Key) : String :=
  let alg := match it.prot.bind (·.alg) with | some a => a | none => "-"
  let v := match verify V it key with
    | .ok (_, _, claims) => if claims == it.claims then "verified" else "verified-other-claims"
    | .error .missingProtected => "E:missing-protected"
    | .error .protectedWithoutAlg => "E:no-alg"
    | .error .algMismatch => "E:alg-mismatch"
    | .error .signature => "E:signature"
  s!"ok:{hex it.signingInput}:{hex it.signature}:{hex it.claims}:{alg}:{v}"

def showO (o : Option Item) (key : Key) : String := match o with | some it => showItem it key | none => "err"

/-- `S:<prot hex|~>:<U spec|_>:<sig hex>` -/
def parseSig (t : String) : Option SigMembers :=
  match t.splitOn "/" with
  | ["S", p, u, s] =>
    match optBytes p, Driver.C11.parseHdr u, unhex s with
    | some p, some u, some s => some { prot := p, header := u, signature := s }
    | _, _, _ => none
  | _ => none

/-- `vfy d=.. alg=.. kty=.. crv=<hex|~> x=<len|bad|~> y=<len|bad|~> sl=<n> P=<curves|~> S=<curves|~> K=.. G=..` -/
def vfy (args : List String) : String :=
  let get (k : String) : Option String := args.findSome? fun a => if a.startsWith (k ++ "=") then some (a.drop (k.length + 1)).toString else none
  let len (t : String) : Option (Option Nat) := if t == "bad" || t == "~" then some none else t.toNat?.map some
  match get "d", get "alg", get "kty", get "crv", get "x", get "y", get "sl", get "P", get "S" with
  | some d, some alg, some kty, some crv, some x, some y, some sl, some p, some sg =>
    let kty? : Option Verifier.Kty :=
      if kty == "okp" then some .okp else if kty == "ec" then some .ec else if kty == "rsa" then some .rsa else if kty == "oct" then some .oct else none
    let crv? : Option String := if crv == "~" then some "" else (unhex crv).map fun b => String.ofList (b.map Char.ofNat)
    let d? : Option Verifier.Disp := if d == "ed" then some .ed else if d == "ec" then some .ec else none
    match d?, kty?, crv?, len x, len y, sl.toNat? with
    | some d, some kty, some crv, some xl, some yl, some n =>
      -- a key type without `x` / `crv` never gets past the key-type guard; the x of an OKP / EC key that is absent cannot be
      -- built by the generator
      let pts := if p == "~" then [] else p.splitOn ","
      let sgs := if sg == "~" then [] else sg.splitOn ","
      let c : Verifier.Crypto := ⟨fun cv => pts.contains cv, fun cv => sgs.contains cv⟩
      if Verifier.accepts d alg ⟨kty, crv, xl, yl⟩ n c then "ok" else "rejected"
    | _, _, _, _, _, _ => "bad-request"
  | _, _, _, _, _, _, _, _, _ => "bad-request"

def handle : List String → String
  | "vfy" :: rest => vfy rest
  -- the library's own verifiers on really signed tokens: the theorems hand the scheme exactly the received signature bytes;
  -- a sound scheme accepts those bytes only if they are the signature that was made (any other byte string is refused)
  | ["real", _alg, v] => if v == "valid" then "verified" else "rejected"
  | "compact" :: tok :: det :: key :: tab =>
    match unhex tok, optBytes det, parseKey key, parseTable tab with
    | some tok, some det, some key, some tab => showO (decodeCompact (mkP tab) tok det) key
    | _, _, _, _ => "bad-request"
  | "flat" :: pl :: sg :: det :: key :: tab =>
    match optBytes pl, parseSig sg, optBytes det, parseKey key, parseTable tab with
    | some pl, some sg, some det, some key, some tab => showO (decodeFlattened (mkP tab) pl sg det) key
    | _, _, _, _, _ => "bad-request"
  | "general" :: pl :: det :: key :: n :: rest =>
    match n.toNat? with
    | some n =>
      match optBytes pl, optBytes det, parseKey key, (rest.take n).mapM parseSig, parseTable (rest.drop n) with
      | some pl, some det, some key, some sigs, some tab =>
        match decodeGeneral (mkP tab) pl sigs det with
        | none => "err"
        | some items => " ".intercalate (items.map fun o => showO o key)
      | _, _, _, _, _ => "bad-request"
    | none => "bad-request"
  | "real" :: _ => "impl-only"
  | _ => "bad-request"

end Driver.C01
