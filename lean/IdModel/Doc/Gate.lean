import IdModel.Doc.Model
/-! The `HashMap` loops of `check_id_constraints` decide exactly the pairwise conditions (C04). -/
namespace IdModel.Doc

/-- what the first loop demands of two relationship entries -/
def RR (a b : MRef) : Prop := a.id = b.id → a.isEmbed = false ∧ b.isEmbed = false

theorem insert_apply (m : IdMap) (k : Id) (v : Bool) (x : Id) :
    m.insert k v x = if x = k then some v else m x := rfl

theorem checkRels_some (L : List MRef) : ∀ (m m' : IdMap), checkRels m L = some m' →
    (∀ e ∈ L, m e.id ≠ some true ∧ (e.isEmbed = true → m e.id = none)) ∧ L.Pairwise RR ∧
    (∀ x, m' x = some true ↔ (m x = some true ∨ ∃ e ∈ L, e.id = x ∧ e.isEmbed = true)) ∧
    (∀ x, m' x = none ↔ (m x = none ∧ ∀ e ∈ L, e.id ≠ x)) := by
  induction L with
  | nil =>
    intro m m' h
    simp only [checkRels, Option.some.injEq] at h
    subst h
    simp
  | cons e t ih =>
    intro m m' h
    -- the recursive call is on `m.insert e.id e.isEmbed` in both surviving branches
    have key : m e.id ≠ some true ∧ (e.isEmbed = true → m e.id = none) ∧
        checkRels (m.insert e.id e.isEmbed) t = some m' := by
      unfold checkRels at h
      cases hm : m e.id with
      | none => rw [hm] at h; exact ⟨by simp, fun _ => rfl, h⟩
      | some b =>
        rw [hm] at h
        cases b with
        | true => cases h
        | false =>
          simp only at h
          cases he : e.isEmbed with
          | true => rw [he] at h; simp at h
          | false => rw [he] at h; simp only [Bool.false_eq_true, ↓reduceIte] at h; exact ⟨by simp, by simp, by rw [he] at *; exact h⟩
    obtain ⟨k1, k2, k3⟩ := key
    obtain ⟨a1, a2, a3, a4⟩ := ih _ _ k3
    refine ⟨?_, ?_, ?_, ?_⟩
    · intro x hx
      rcases List.mem_cons.1 hx with hx | hx
      · subst hx; exact ⟨k1, k2⟩
      · have b := a1 x hx
        rw [insert_apply] at b
        by_cases hxe : x.id = e.id
        · rw [if_pos hxe] at b
          refine ⟨by rw [hxe]; exact k1, ?_⟩
          intro hemb
          have := b.2 hemb
          cases this
        · rw [if_neg hxe] at b
          exact b
    · rw [List.pairwise_cons]
      refine ⟨?_, a2⟩
      intro x hx hid
      have b := a1 x hx
      rw [insert_apply, if_pos hid.symm] at b
      constructor
      · cases he : e.isEmbed with
        | false => rfl
        | true => rw [he] at b; exact absurd rfl b.1
      · cases hxe : x.isEmbed with
        | false => rfl
        | true => have := b.2 hxe; cases this
    · intro x
      rw [a3 x, insert_apply]
      by_cases hxe : x = e.id
      · rw [if_pos hxe]
        subst hxe
        constructor
        · rintro (h | ⟨e', he', h1, h2⟩)
          · right; exact ⟨e, List.mem_cons_self, rfl, by simpa using h⟩
          · right; exact ⟨e', List.mem_cons_of_mem _ he', h1, h2⟩
        · rintro (h | ⟨e', he', h1, h2⟩)
          · exact absurd h k1
          · rcases List.mem_cons.1 he' with he' | he'
            · subst he'; left; simp [h2]
            · right; exact ⟨e', he', h1, h2⟩
      · rw [if_neg hxe]
        constructor
        · rintro (h | ⟨e', he', h1, h2⟩)
          · left; exact h
          · right; exact ⟨e', List.mem_cons_of_mem _ he', h1, h2⟩
        · rintro (h | ⟨e', he', h1, h2⟩)
          · left; exact h
          · rcases List.mem_cons.1 he' with he' | he'
            · subst he'; exact absurd h1.symm hxe
            · right; exact ⟨e', he', h1, h2⟩
    · intro x
      rw [a4 x, insert_apply]
      by_cases hxe : x = e.id
      · rw [if_pos hxe]
        constructor
        · rintro ⟨h, _⟩; cases h
        · rintro ⟨_, h⟩; exact absurd hxe.symm (h e List.mem_cons_self)
      · rw [if_neg hxe]
        constructor
        · rintro ⟨h1, h2⟩
          refine ⟨h1, ?_⟩
          intro e' he'
          rcases List.mem_cons.1 he' with he' | he'
          · subst he'; exact fun h => hxe h.symm
          · exact h2 e' he'
        · rintro ⟨h1, h2⟩
          exact ⟨h1, fun e' he' => h2 e' (List.mem_cons_of_mem _ he')⟩

theorem checkRels_isSome (L : List MRef) : ∀ (m : IdMap),
    (∀ e ∈ L, m e.id ≠ some true ∧ (e.isEmbed = true → m e.id = none)) → L.Pairwise RR →
    ∃ m', checkRels m L = some m' := by
  induction L with
  | nil => intro m _ _; exact ⟨m, rfl⟩
  | cons e t ih =>
    intro m h1 h2
    rw [List.pairwise_cons] at h2
    have he := h1 e List.mem_cons_self
    have hrec : ∃ m', checkRels (m.insert e.id e.isEmbed) t = some m' := by
      apply ih _ _ h2.2
      intro x hx
      have hx1 := h1 x (List.mem_cons_of_mem _ hx)
      rw [insert_apply]
      by_cases hxe : x.id = e.id
      · rw [if_pos hxe]
        have r := h2.1 x hx hxe.symm
        refine ⟨by rw [r.1]; simp, ?_⟩
        intro hemb; rw [r.2] at hemb; cases hemb
      · rw [if_neg hxe]; exact hx1
    obtain ⟨m', hm'⟩ := hrec
    refine ⟨m', ?_⟩
    unfold checkRels
    cases hm : m e.id with
    | none => exact hm'
    | some b =>
      cases b with
      | true => exact absurd hm he.1
      | false =>
        simp only
        cases hemb : e.isEmbed with
        | true => have := he.2 hemb; rw [hm] at this; cases this
        | false => simp only [Bool.false_eq_true, ↓reduceIte]; rw [hemb] at hm'; exact hm'

theorem checkVm_some (L : List Method) : ∀ (m m' : IdMap), checkVm m L = some m' →
    (∀ v ∈ L, m v.id ≠ some true) ∧
    (∀ x, m' x = none ↔ (m x = none ∧ ∀ v ∈ L, v.id ≠ x)) := by
  induction L with
  | nil =>
    intro m m' h
    simp only [checkVm, Option.some.injEq] at h
    subst h; simp
  | cons v t ih =>
    intro m m' h
    have key : m v.id ≠ some true ∧ checkVm (m.insert v.id false) t = some m' := by
      unfold checkVm at h
      cases hm : m v.id with
      | none => rw [hm] at h; exact ⟨by simp, h⟩
      | some b =>
        rw [hm] at h
        cases b with
        | true => cases h
        | false => exact ⟨by simp, h⟩
    obtain ⟨k1, k2⟩ := key
    obtain ⟨a1, a2⟩ := ih _ _ k2
    refine ⟨?_, ?_⟩
    · intro x hx
      rcases List.mem_cons.1 hx with hx | hx
      · subst hx; exact k1
      · have b := a1 x hx
        rw [insert_apply] at b
        by_cases hxe : x.id = v.id
        · rw [hxe]; exact k1
        · rw [if_neg hxe] at b; exact b
    · intro x
      rw [a2 x, insert_apply]
      by_cases hxe : x = v.id
      · rw [if_pos hxe]
        constructor
        · rintro ⟨h, _⟩; cases h
        · rintro ⟨_, h⟩; exact absurd hxe.symm (h v List.mem_cons_self)
      · rw [if_neg hxe]
        constructor
        · rintro ⟨h1, h2⟩
          refine ⟨h1, ?_⟩
          intro e' he'
          rcases List.mem_cons.1 he' with he' | he'
          · subst he'; exact fun h => hxe h.symm
          · exact h2 e' he'
        · rintro ⟨h1, h2⟩
          exact ⟨h1, fun e' he' => h2 e' (List.mem_cons_of_mem _ he')⟩

theorem checkVm_isSome (L : List Method) : ∀ (m : IdMap), (∀ v ∈ L, m v.id ≠ some true) →
    ∃ m', checkVm m L = some m' := by
  induction L with
  | nil => intro m _; exact ⟨m, rfl⟩
  | cons v t ih =>
    intro m h1
    have hv := h1 v List.mem_cons_self
    have hrec : ∃ m', checkVm (m.insert v.id false) t = some m' := by
      apply ih
      intro x hx
      rw [insert_apply]
      by_cases hxe : x.id = v.id
      · rw [if_pos hxe]; simp
      · rw [if_neg hxe]; exact h1 x (List.mem_cons_of_mem _ hx)
    obtain ⟨m', hm'⟩ := hrec
    refine ⟨m', ?_⟩
    unfold checkVm
    cases hm : m v.id with
    | none => exact hm'
    | some b =>
      cases b with
      | true => exact absurd hm hv
      | false => exact hm'

/-- the gate, over the concatenated relationship entries `R` -/
def GateSem (R : List MRef) (V : List Method) (S : List Service) : Prop :=
  R.Pairwise RR ∧
  (∀ v ∈ V, ∀ e ∈ R, e.isEmbed = true → e.id ≠ v.id) ∧
  (∀ s ∈ S, (∀ e ∈ R, e.id ≠ s.id) ∧ ∀ v ∈ V, v.id ≠ s.id)

def gate (R : List MRef) (V : List Method) (S : List Service) : Bool :=
  match checkRels (fun _ => none) R with
  | none => false
  | some m =>
    match checkVm m V with
    | none => false
    | some m' => checkServices m' S

theorem gate_iff (R : List MRef) (V : List Method) (S : List Service) :
    gate R V S = true ↔ GateSem R V S := by
  unfold gate GateSem
  constructor
  · intro h
    cases h1 : checkRels (fun _ => none) R with
    | none => rw [h1] at h; cases h
    | some m =>
      rw [h1] at h
      simp only at h
      cases h2 : checkVm m V with
      | none => rw [h2] at h; cases h
      | some m' =>
        rw [h2] at h
        simp only at h
        obtain ⟨_, p, a3, a4⟩ := checkRels_some R _ _ h1
        obtain ⟨b1, b2⟩ := checkVm_some V _ _ h2
        refine ⟨p, ?_, ?_⟩
        · intro v hv e he hemb hid
          exact b1 v hv ((a3 v.id).2 (Or.inr ⟨e, he, hid, hemb⟩))
        · intro s hs
          unfold checkServices at h
          rw [List.all_eq_true] at h
          have := h s hs
          have hn : m' s.id = none := by
            cases hh : m' s.id with
            | none => rfl
            | some _ => rw [hh] at this; simp at this
          obtain ⟨c1, c2⟩ := (b2 s.id).1 hn
          exact ⟨((a4 s.id).1 c1).2, c2⟩
  · rintro ⟨p, hv, hs⟩
    obtain ⟨m, hm⟩ := checkRels_isSome R (fun _ => none) (fun e _ => ⟨by simp, fun _ => rfl⟩) p
    obtain ⟨_, _, a3, a4⟩ := checkRels_some R _ _ hm
    have hvm : ∀ v ∈ V, m v.id ≠ some true := by
      intro v hv' h
      rcases (a3 v.id).1 h with h | ⟨e, he, hid, hemb⟩
      · cases h
      · exact hv v hv' e he hemb hid
    obtain ⟨m', hm'⟩ := checkVm_isSome V m hvm
    obtain ⟨_, b2⟩ := checkVm_some V _ _ hm'
    rw [hm]
    simp only
    rw [hm']
    simp only
    unfold checkServices
    rw [List.all_eq_true]
    intro s hs'
    have : m' s.id = none := (b2 s.id).2 ⟨(a4 s.id).2 ⟨rfl, (hs s hs').1⟩, (hs s hs').2⟩
    rw [this]; rfl

theorem checkIdConstraints_eq (d : Doc) :
    checkIdConstraints d = gate ((relList Gen.C04.checkOrder).flatMap d.getRel) d.vm d.service := rfl

end IdModel.Doc
