#!/bin/bash
# seed_confirm.sh <Cxx> <n> <crate> [cargo test extra args...]
# Confirms a sub-agent's seeded change in its scratch worktree /tmp/seed-<Cxx>:
#   suite passes with the patch; demo fails with it and passes without it.
# Then stores it under /verif/seeded/<Cxx>-<n>/ and runs ./check against /repo with the patch applied.
set -u
# SEED_PHASE=confirm : only the confirmation in the scratch worktree (parallel across properties; /repo untouched),
#                      leaves /tmp/seed-<Cxx>/out/<n>/confirmed
# SEED_PHASE=check   : only store + run ./check against /repo with the patch applied (serial), requires `confirmed`
P=$1; N=$2; CRATE=$3; shift 3
PHASE=${SEED_PHASE:-both}
WT=/tmp/seed-$P; OUT=$WT/out/$N
export CARGO_NET_OFFLINE=true CARGO_TARGET_DIR=$WT/target
cd $WT || exit 2
if [ "$PHASE" != check ]; then
git checkout -q -- . && git clean -fdq -e out -e target
res() { echo "$1"; }
mkdir -p $CRATE/tests; cp $OUT/demo.rs $CRATE/tests/seed_demo_$N.rs
cargo test -p $CRATE --offline "$@" --test seed_demo_$N >/tmp/seed_${P}_${N}.a 2>&1; A=$?
git apply $OUT/patch.diff || { echo "patch does not apply"; exit 2; }
cargo test -p $CRATE --offline "$@" --test seed_demo_$N >/tmp/seed_${P}_${N}.b 2>&1; B=$?
rm $CRATE/tests/seed_demo_$N.rs
cargo test -p $CRATE --offline "$@" >/tmp/seed_${P}_${N}.c 2>&1; C=$?
git checkout -q -- . && git clean -fdq -e out -e target
echo "demo without patch rc=$A (want 0); demo with patch rc=$B (want !=0); suite with patch rc=$C (want 0)"
[ $A -eq 0 ] && [ $B -ne 0 ] && [ $C -eq 0 ] || { echo "NOT CONFIRMED"; exit 1; }
touch $OUT/confirmed
fi
[ "$PHASE" = confirm ] && exit 0
[ -f $OUT/confirmed ] || { echo "not confirmed yet"; exit 1; }
D=/verif/seeded/$P-$N; mkdir -p $D
cp $OUT/patch.diff $D/patch.diff; cp $OUT/demo.rs $D/demo.rs; cp $OUT/notes.txt $D/notes.txt
cd /verif
unset CARGO_TARGET_DIR
DIRTY=0; if [ -n "$(git -C /repo status --porcelain --untracked-files=no)" ]; then DIRTY=1; git -C /repo stash -q; fi
git -C /repo apply $D/patch.diff || { echo "patch does not apply to /repo"; [ $DIRTY -eq 1 ] && git -C /repo stash pop -q; exit 2; }
./check $P > $D/check.out 2>&1; R=$?
git -C /repo checkout -- .
[ $DIRTY -eq 1 ] && git -C /repo stash pop -q
# evidence/<id>.json is rewritten by every run: refresh it (and the regenerated fragments) on the unchanged tree
python3 tools/translate.py all > /dev/null 2>&1
./check $P > /dev/null 2>&1
echo "check rc=$R"; grep -E "VIOLATION|KNOWN|OK property" $D/check.out | head -5
echo "$R" > $D/check.rc
python3 - "$P" "$N" "$CRATE" "$R" "$*" <<'PY'
import json, sys, re
P, N, CRATE, R, EXTRA = sys.argv[1:6]
d = "/verif/seeded/%s-%s" % (P, N)
notes = open(d + "/notes.txt").read()
out = open(d + "/check.out").read()
meta = {
  "property": P,
  "origin": "independent sub-agent given only the property text and a scratch worktree of /repo",
  "notes_excerpt": notes[:1500],
  "confirmed_in_scratch_worktree": {
    "cmd_suite": "cargo test -p %s --offline %s (with patch): pass" % (CRATE, EXTRA),
    "cmd_demo": "cargo test -p %s --offline %s --test seed_demo_%s : passes without the patch, fails with it" % (CRATE, EXTRA, N),
  },
  "check": {"cmd": "git -C /repo apply patch.diff; ./check %s; git -C /repo checkout -- ." % P, "exit": int(R),
            "verdict_lines": [l for l in out.splitlines() if re.search(r"VIOLATION|OK property|KNOWN-FINDING|oracle failed|correspondence broken|no longer checks", l)][:8]},
  "detected": int(R) == 1,
}
json.dump(meta, open(d + "/meta.json", "w"), indent=1)
PY
