//! hx — correspondence harness: runs the real identity.rs code in-process on request lines.
//!
//!   hx <Cxx> gen <quick|thorough> <seed>     writes request lines to stdout
//!   hx <Cxx> run                             reads request lines, writes one reply per line
//!
//! A reply line is `<observable>` optionally followed by `\t#FAIL:<key>:<explanation>` when the
//! implementation-side property oracle fails for that request.
mod c01;
mod c02;
mod c03;
mod c04;
mod c05;
mod c06;
mod c07;
mod jwtu;
mod c08;
mod c09;
mod c10;
mod c11;
mod c12;
mod c13;
mod c14;
mod c15;
mod c20;
mod c16;
mod c17;
mod c18;
mod c19;
mod jose_util;
mod rng;

use std::io::BufRead;
use std::io::Write;

fn run_line(prop: &str, line: &str) -> String {
  let toks: Vec<&str> = line.split_whitespace().collect();
  if toks.first().copied() != Some(prop) {
    return "bad-request".to_string();
  }
  let args = &toks[1..];
  let r = std::panic::catch_unwind(|| match prop {
    "C01" => c01::run(args),
    "C02" => c02::run(args),
    "C03" => c03::run(args),
    "C04" => c04::run(args),
    "C05" => c05::run(args),
    "C06" => c06::run(args),
    "C07" => c07::run(args),
    "C08" => c08::run(args),
    "C09" => c09::run(args),
    "C10" => c10::run(args),
    "C11" => c11::run(args),
    "C12" => c12::run(args),
    "C13" => c13::run(args),
    "C14" => c14::run(args),
    "C15" => c15::run(args),
    "C20" => c20::run(args),
    "C16" => c16::run(args),
    "C17" => c17::run(args),
    "C18" => c18::run(args),
    "C19" => c19::run(args),
    _ => "bad-request".to_string(),
  });
  match r {
    Ok(s) => s,
    Err(_) => "PANIC\t#FAIL:panic:implementation panicked".to_string(),
  }
}

fn main() {
  let args: Vec<String> = std::env::args().collect();
  if args.len() < 3 {
    eprintln!("usage: hx <Cxx> gen <tier> <seed> | hx <Cxx> run");
    std::process::exit(2);
  }
  let prop = args[1].as_str();
  let stdout = std::io::stdout();
  let mut out = std::io::BufWriter::with_capacity(1 << 20, stdout.lock());
  match args[2].as_str() {
    "gen" => {
      let tier = args.get(3).map(|s| s.as_str()).unwrap_or("quick");
      let seed: u64 = args.get(4).and_then(|s| s.parse().ok()).unwrap_or(0);
      let thorough = tier == "thorough";
      match prop {
        "C01" => c01::gen(thorough, seed, &mut out),
        "C02" => c02::gen(thorough, seed, &mut out),
        "C03" => c03::gen(thorough, seed, &mut out),
        "C04" => c04::gen(thorough, seed, &mut out),
        "C05" => c05::gen(thorough, seed, &mut out),
        "C06" => c06::gen(thorough, seed, &mut out),
        "C07" => c07::gen(thorough, seed, &mut out),
        "C08" => c08::gen(thorough, seed, &mut out),
        "C09" => c09::gen(thorough, seed, &mut out),
        "C10" => c10::gen(thorough, seed, &mut out),
        "C11" => c11::gen(thorough, seed, &mut out),
        "C12" => c12::gen(thorough, seed, &mut out),
        "C13" => c13::gen(thorough, seed, &mut out),
        "C14" => c14::gen(thorough, seed, &mut out),
        "C15" => c15::gen(thorough, seed, &mut out),
        "C20" => c20::gen(thorough, seed, &mut out),
        "C16" => c16::gen(thorough, seed, &mut out),
        "C17" => c17::gen(thorough, seed, &mut out),
        "C18" => c18::gen(thorough, seed, &mut out),
        "C19" => c19::gen(thorough, seed, &mut out),
        _ => {
          eprintln!("unknown property");
          std::process::exit(2);
        }
      }
    }
    "run" => {
      // silence the default panic message; panics are reported in-band
      std::panic::set_hook(Box::new(|_| {}));
      let stdin = std::io::stdin();
      for line in stdin.lock().lines() {
        let line = line.unwrap();
        let reply = run_line(prop, &line);
        writeln!(out, "{}", reply).unwrap();
        // one flush per reply: when the process dies (stack overflow, abort) or hangs, the number of replies
        // written tells ./check which request it was
        out.flush().unwrap();
      }
    }
    _ => std::process::exit(2),
  }
  out.flush().unwrap();
}
