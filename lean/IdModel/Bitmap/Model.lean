import IdModel.Core.B64
import IdModel.Gen.C06
/-!
Model of `RevocationBitmap` (revocation_bitmap_2022/bitmap.rs), of the batch revoke/unrevoke
operations and of the revocation-bitmap status check (property C06).

A bitmap is a finite set of indices, kept as a list used only through membership.  The roaring
serialisation and zlib are an abstract codec `(pack, unpack)`; base64 (both alphabets), the
data-URL prefix and the **legacy double-encoding detection** are concrete, with the prefix
literals regenerated from the Rust source.
-/
namespace IdModel.Bitmap
open IdModel IdModel.Gen.C06

abbrev Bytes := List Nat

/-- roaring `serialize_into` followed by zlib, and the reverse -/
structure Codec where
  pack : List Nat → Bytes
  unpack : Bytes → Option (List Nat)

/-- `str::starts_with` one of the regenerated prefixes -/
def isNewFormat (data : Bytes) : Bool := newFormatPrefixes.any fun p => p.isPrefixOf data

/-- standard alphabet (`+`, `/`) mapped onto the url alphabet handled by `B64` -/
def stdToUrl (c : Nat) : Option Nat :=
  if c = 43 then some 45 else if c = 47 then some 95 else if c = 45 ∨ c = 95 then none else some c

/-- `BaseEncoding::decode(_, Base::Base64)`: standard alphabet, no padding -/
def decStd (s : Bytes) : Option Bytes := (s.mapM stdToUrl).bind B64.dec

/-- UTF-8 validity (`String::from_utf8`) -/
def utf8Valid : Bytes → Bool
  | [] => true
  | b :: r =>
    if b < 128 then utf8Valid r
    else if 194 ≤ b && b ≤ 223 then
      match r with
      | c :: r' => (128 ≤ c && c ≤ 191) && utf8Valid r'
      | _ => false
    else if 224 ≤ b && b ≤ 239 then
      match r with
      | c :: d :: r' =>
        ((if b = 224 then 160 ≤ c else 128 ≤ c) && (if b = 237 then c ≤ 159 else c ≤ 191)) &&
          (128 ≤ d && d ≤ 191) && utf8Valid r'
      | _ => false
    else if 240 ≤ b && b ≤ 244 then
      match r with
      | c :: d :: e :: r' =>
        ((if b = 240 then 144 ≤ c else 128 ≤ c) && (if b = 244 then c ≤ 143 else c ≤ 191)) &&
          (128 ≤ d && d ≤ 191) && (128 ≤ e && e ≤ 191) && utf8Valid r'
      | _ => false
    else false

/-- `serialize_compressed_base64` -/
def serialize (c : Codec) (s : List Nat) : Bytes := B64.enc (c.pack s)

/-- `deserialize_compressed_base64` -/
def deserialize (c : Codec) (data : Bytes) : Option (List Nat) :=
  let inner : Option Bytes :=
    if isNewFormat data then some data
    else match decStd data with
      | none => none
      | some d => if utf8Valid d then some d else none
  match inner with
  | none => none
  | some d => match B64.dec d with
    | none => none
    | some z => c.unpack z

/-- `to_endpoint` (the data URL) -/
def toEndpoint (c : Codec) (s : List Nat) : Bytes := dataUrlPattern ++ serialize c s

/-- `try_from_endpoint` for a single-URL endpoint -/
def tryFromEndpoint (c : Codec) (url : Bytes) : Option (List Nat) :=
  if dataUrlPattern.isPrefixOf url then deserialize c (url.drop dataUrlPattern.length) else none

/-- `TryFrom<&Service>`: the service type list must contain `RevocationBitmap2022` -/
def tryFromService (c : Codec) (types : List Bytes) (endpoint : Option Bytes) : Option (List Nat) :=
  if types.contains typeName then
    match endpoint with
    | some url => tryFromEndpoint c url
    | none => none          -- not a single URL
  else none

/-! ### membership and batches -/

def revoke (s : List Nat) (i : Nat) : List Nat := if i ∈ s then s else i :: s
def unrevoke (s : List Nat) (i : Nat) : List Nat := s.filter (· ≠ i)
def revokeAll (s : List Nat) (is : List Nat) : List Nat := is.foldl revoke s
def unrevokeAll (s : List Nat) (is : List Nat) : List Nat := is.foldl unrevoke s

inductive Batch | revoke (is : List Nat) | unrevoke (is : List Nat)
  deriving Repr

def applyBatch (s : List Nat) : Batch → List Nat
  | .revoke is => revokeAll s is
  | .unrevoke is => unrevokeAll s is

/-- `update_revocation_bitmap`: decode the service's endpoint, apply, re-encode -/
def updateEndpoint (c : Codec) (types : List Bytes) (endpoint : Option Bytes) (b : Batch) :
    Option Bytes :=
  match tryFromService c types endpoint with
  | none => none
  | some s => some (toEndpoint c (applyBatch s b))

/-! ### status check -/

inductive StatusCheck | strict | skipUnsupported | skipAll
  deriving Repr, DecidableEq

/-- the credential's status entry as far as validation looks at it -/
structure StatusView where
  typeIsBitmap : Bool
  /-- `revocationBitmapIndex`: absent, not a string, not a `u32`, or a number -/
  indexProp : Option (Option (Option Nat))
  /-- values of every `index` query pair of the status id (`none` = not a `u32`) -/
  queryIndices : List (Option Nat)
  /-- the status id parses as a DID URL -/
  idIsDidUrl : Bool
  deriving Repr

inductive VRes | ok | invalidStatus | documentMismatch | serviceLookup | revoked
  deriving Repr, DecidableEq

/-- `RevocationBitmapStatus::try_from`: index property and the optional `index` query agree -/
def statusIndex (st : StatusView) : Option Nat :=
  match st.indexProp with
  | some (some (some n)) =>
    if st.queryIndices.all (fun q => q == some n) then some n else none
  | _ => none

/-- `check_status` + `check_revocation_bitmap_status`; `service` is the outcome of
`resolve_revocation_bitmap` on the issuer document (`none` = not found / wrong type / undecodable) -/
def checkStatus (sc : StatusCheck) (status : Option StatusView) (issuerFound : Bool)
    (service : Option (List Nat)) : VRes :=
  if sc == .skipAll then .ok else
  match status with
  | none => .ok
  | some st =>
    if !st.typeIsBitmap then (if sc == .skipUnsupported then .ok else .invalidStatus)
    else match statusIndex st with
      | none => .invalidStatus
      | some n =>
        if !issuerFound then .documentMismatch
        else if !st.idIsDidUrl then .invalidStatus
        else match service with
          | none => .serviceLookup
          | some s => if n ∈ s then .revoked else .ok

end IdModel.Bitmap
