import IdModel.Val.PModel
import Driver.C02
/-! Line-protocol handler for C03 (JWT presentation validation). See harness/src/c03.rs for the request grammar. -/
namespace Driver.C03
open IdModel.Doc IdModel.Vc IdModel.Val

def parseKid (t : String) : Option (Option Query) :=
  if t == "~" then some none
  else if t == "E" then some (some ⟨none, none⟩)
  else if t.startsWith "F" then (C04.parseId (t.drop 1).toString).map (fun i => some (Query.ofId i))
  else if t.startsWith "H" || t.startsWith "B" then (t.drop 1).toString.toNat?.map (fun n => some ⟨none, some n⟩)
  else if t.startsWith "D" then (t.drop 1).toString.toNat?.map (fun n => some ⟨some n, none⟩)
  else none

def parsePClaims (t : String) : Option (Option PClaims × Bool) :=
  if t == "J" then some (none, true) else
  let m := C02.kvc t "," "="
  let iss : Option (Nat × Bool) := match C02.get m "iss" with
    | none => none
    | some v => if v.startsWith "w" then (v.drop 1).toString.toNat?.map (fun n => (1000 + n, false))
                -- a DID URL of a DID (fragment / query / path): a URL that is not a DID
                else if v.startsWith "f" then (v.drop 1).toString.toNat?.map (fun n => (2000 + n, false))
                else if v.startsWith "q" then (v.drop 1).toString.toNat?.map (fun n => (3000 + n, false))
                else if v.startsWith "p" then (v.drop 1).toString.toNat?.map (fun n => (4000 + n, false))
                else v.toNat?.map (fun n => (n, true))
  match C07.oint m "exp", iss, C07.oint m "iat", C07.oint m "nbf", C07.onat m "jti", C07.onat m "aud", C07.onat m "vid",
    C07.onat m "vholder", C07.onat m "cust" with
  | some exp, some (iss, isDid), some iat, some nbf, some jti, some aud, some vid, some vholder, some cust =>
    some (some ⟨exp, iss, iat, nbf, jti, aud, ⟨vid, vholder, 0⟩, cust⟩, isDid)
  | _, _, _, _, _, _, _, _, _ => none

def parseToken (t : String) : Option PTok :=
  let m := C02.kvc t ";" ":"
  match (C02.get m "kid").bind parseKid, C02.onat m "hn", (C02.get m "sig").bind String.toNat?,
    (C02.get m "cl").bind parsePClaims with
  | some kid, some hn, some sig, some (cl, isDid) => some ⟨kid, hn, sig, cl, isDid⟩
  | _, _, _, _ => none

def parseOpts (t : String) : Option PVOpts :=
  let m := C02.kvc t ";" ":"
  let mid : Option (Option Id) := match C02.get m "mid" with
    | none => some none
    | some "~" => some none
    | some v => (C04.parseId v).map some
  match C02.onat m "n", mid, (C02.get m "sc").bind C02.parseScopeOpt, (C02.get m "ee").bind String.toInt?,
    (C02.get m "li").bind String.toInt? with
  | some n, some mid, some sc, some ee, some li => some ⟨n, mid, sc, ee, li⟩
  | _, _, _, _, _ => none

def showPVErr : PVErr → String
  | .nonce => "nonce" | .kidMissing => "kidMissing" | .methodNotFound => "methodNotFound" | .keyMaterial => "keyMaterial"
  | .signature => "signature" | .claimsJson => "claimsJson" | .signerUrl => "signerUrl"
  | .documentMismatch => "documentMismatch" | .timestamp => "timestamp" | .expirationDate => "expirationDate"
  | .issuanceDate => "issuanceDate" | .claims e => "claims:" ++ C07.showPErr e

def handle (args : List String) : String :=
  match args with
  | ["val", doc, tok, opts] =>
    match C02.parseDoc doc, parseToken (tok.drop 2).toString, parseOpts (opts.drop 2).toString with
    | some (d, _), some t, some o =>
      match validateP d t o with
      | .ok (p, r) =>
        s!"ok:id={C07.so p.id};holder={p.holder}|exp={C07.so r.expiration};nbf={C07.so r.issuance};aud={C07.so r.audience};cust={C07.so r.custom}"
      | .error e => "err:" ++ showPVErr e
    | _, _, _ => "bad-request"
  | _ => "bad-request"

end Driver.C03
