//! C02 — JWT credential validation accepts only when every checked condition holds.
//!
//! Requests:
//!   `C02 val <doc> T=<token> O=<opts>`          JwtCredentialValidator::validate with one issuer document
//!   `C02 ver <doc>/<doc>/… T=<token> O=<opts>`  JwtCredentialValidator::verify_signature with several trusted issuers
//!   doc   = c04 document spec (method body = number of the toy public JWK it holds, 0 = a method without JWK),
//!           optionally followed by `;bm=<csv|->` : a RevocationBitmap2022 service `#rev` holding these indices
//!   token = `kid:<~|X|did.pq.frag>;hn:<~|n>;sig:<k>;cl:<claims|J>;ctx:<0|1>;typ:<0|1>;spe:<0|1>;nt:<~|0|1>;st:<~|o|b<idx>>`
//!           claims as in `C07 dec` with `,` for `;` and `:` for `=`; issuer `w<n>` = an https URL (not a DID);
//!           `J` = a payload that is not a claims set
//!   opts  = `n:<~|n>;mid:<~|did.pq.frag>;sc:<~|vm|0..4>;ee:<unix>;li:<unix>;sh:<~|<holder>.<a|n|y>>;stc:<strict|skipu|skipall>;ff:<0|1>`
//! Reply: `ok:<credential>` or `err:<kind>[,<kind>…]`.
use crate::c04::{id_str, parse_id, parse_spec, Id, Spec, KIND};
use crate::jwtu::*;
use crate::rng::Rng;
use identity_core::common::Object;
use identity_core::common::Timestamp;
use identity_core::common::Url;
use identity_core::convert::FromJson;
use identity_credential::credential::Jwt;
use identity_credential::revocation::RevocationBitmap;
use identity_credential::validator::FailFast;
use identity_credential::validator::JwtCredentialValidationOptions;
use identity_credential::validator::JwtCredentialValidator;
use identity_credential::validator::JwtValidationError;
use identity_credential::validator::StatusCheck;
use identity_credential::validator::SubjectHolderRelationship;
use identity_did::DIDUrl;
use identity_did::DID;
use identity_document::document::CoreDocument;
use identity_document::verifiable::JwsVerificationOptions;
use identity_verification::MethodRelationship;
use identity_verification::MethodScope;
use serde_json::json;
use serde_json::Map;
use serde_json::Value;
use std::collections::HashMap;
use std::io::Write;

pub(crate) fn kvc(t: &str, sep: char, eq: char) -> HashMap<String, String> {
  t.split(sep).filter_map(|p| p.split_once(eq)).map(|(a, b)| (a.to_string(), b.to_string())).collect()
}
pub(crate) fn oi(m: &HashMap<String, String>, k: &str) -> Option<Option<i64>> {
  match m.get(k).map(|s| s.as_str()) {
    None | Some("~") => Some(None),
    Some(v) => v.parse().ok().map(Some),
  }
}

fn did_i(n: i64) -> String {
  format!("did:ex:i{}", n)
}

/// issuer document: methods hold toy JWKs; an optional revocation bitmap service
pub(crate) fn build_doc(spec_s: &str) -> Option<CoreDocument> {
  let (core, bm) = match spec_s.split_once(";bm=") {
    Some((a, b)) => (a, Some(b)),
    None => (spec_s, None),
  };
  let spec: Spec = parse_spec(core)?;
  let m_json = |i: Id, b: u32| -> String {
    let did = format!("did:ex:i{}", i.did);
    if b == 0 {
      format!(r#"{{"id":"{}","controller":"{}","type":"Ed25519VerificationKey2018","publicKeyMultibase":"z11"}}"#, id_str(i), did)
    } else {
      format!(r#"{{"id":"{}","controller":"{}","type":"JsonWebKey2020","publicKeyJwk":{}}}"#, id_str(i), did, toy_jwk_json(b as u64))
    }
  };
  let names = ["authentication", "assertionMethod", "keyAgreement", "capabilityDelegation", "capabilityInvocation"];
  let mut j = format!("{{\"id\":\"did:ex:i{}\"", spec.id);
  j += &format!(",\"verificationMethod\":[{}]", spec.vm.iter().map(|(i, b)| m_json(*i, *b)).collect::<Vec<_>>().join(","));
  for (n, name) in names.iter().enumerate() {
    let items: Vec<String> = spec.rels[n]
      .iter()
      .map(|e| match e {
        Ok((i, b)) => m_json(*i, *b),
        Err(i) => format!("\"{}\"", id_str(*i)),
      })
      .collect();
    j += &format!(",\"{}\":[{}]", name, items.join(","));
  }
  j += "}";
  let mut doc = CoreDocument::from_json(&j).ok()?;
  if let Some(b) = bm {
    let mut bitmap = RevocationBitmap::new();
    if b != "-" {
      for x in b.split(',') {
        bitmap.revoke(x.parse().ok()?);
      }
    }
    let sid = doc.id().to_url().join("#rev").ok()?;
    doc.insert_service(bitmap.to_service(sid).ok()?).ok()?;
  }
  Some(doc)
}

fn issuer_val(t: &str) -> Option<Value> {
  if let Some(n) = t.strip_prefix('u') {
    Some(json!(did_i(n.parse().ok()?)))
  } else if let Some(n) = t.strip_prefix('w') {
    Some(json!(format!("https://e.x/issuer/{}", n.parse::<i64>().ok()?)))
  } else if let Some(r) = t.strip_prefix('o') {
    let (n, p) = r.split_once('.')?;
    Some(json!({"id": did_i(n.parse().ok()?), "name": format!("p{}", p)}))
  } else {
    None
  }
}
fn show_issuer(v: &Value) -> String {
  match v {
    Value::String(s) if s.starts_with("did:ex:i") => format!("u{}", s.trim_start_matches("did:ex:i")),
    Value::String(s) => format!("w{}", s.trim_start_matches("https://e.x/issuer/")),
    Value::Object(o) => format!(
      "o{}.{}",
      o.get("id").and_then(|x| x.as_str()).unwrap_or("?").trim_start_matches("did:ex:i"),
      o.get("name").and_then(|x| x.as_str()).unwrap_or("?").trim_start_matches('p')
    ),
    _ => "?".into(),
  }
}
fn rfc(u: i64) -> Option<String> {
  Timestamp::from_unix(u).ok().map(|t| t.to_rfc3339())
}

struct Tok {
  jwt: String,
}

fn build_token(t: &str) -> Option<Tok> {
  let (h, c, sig) = token_parts(t)?;
  Some(Tok { jwt: sign_compact(&h, &c, sig) })
}

/// protected header JSON, claims JSON, signing key
pub(crate) fn token_parts(t: &str) -> Option<(String, String, u64)> {
  let m = kvc(t, ';', ':');
  // header
  let mut hdr = Map::new();
  hdr.insert("alg".into(), json!("EdDSA"));
  match m.get("kid")?.as_str() {
    "~" => {}
    "X" => {
      hdr.insert("kid".into(), json!("#k1"));
    }
    k => {
      hdr.insert("kid".into(), json!(id_str(parse_id(k)?)));
    }
  }
  if let Some(n) = oi(&m, "hn")? {
    hdr.insert("nonce".into(), json!(format!("n{}", n)));
  }
  let sig: u64 = m.get("sig")?.parse().ok()?;
  // claims
  let cl_s = m.get("cl")?;
  let claims_json = if cl_s == "J" {
    "{\"iss\":5,\"vc\":[]}".to_string()
  } else {
    let c = kvc(cl_s, ',', '=');
    let g = |k: &str| oi(&c, k);
    let mut vc = Map::new();
    // ctx: 1 base context (alone), 3 base context first of two, 0 another context, 2 base context present but NOT first
    vc.insert(
      "@context".into(),
      match m.get("ctx")?.as_str() {
        "1" => json!("https://www.w3.org/2018/credentials/v1"),
        "3" => json!(["https://www.w3.org/2018/credentials/v1", "https://e.x/other-context"]),
        "2" => json!(["https://e.x/other-context", "https://www.w3.org/2018/credentials/v1"]),
        _ => json!("https://e.x/other-context"),
      },
    );
    // typ: 1 base type first, 3 base type last, 0 absent
    vc.insert(
      "type".into(),
      match m.get("typ")?.as_str() {
        "1" => json!(["VerifiableCredential", "X"]),
        "3" => json!(["X", "VerifiableCredential"]),
        _ => json!("X"),
      },
    );
    let mut subj = Map::new();
    if m.get("spe")? == "0" {
      subj.insert("degree".into(), json!("B"));
    }
    if let Some(s) = g("vsub")? {
      subj.insert("id".into(), json!(format!("did:ex:s{}", s)));
    }
    vc.insert("credentialSubject".into(), Value::Object(subj));
    match m.get("nt")?.as_str() {
      "~" => {}
      "1" => {
        vc.insert("nonTransferable".into(), json!(true));
      }
      _ => {
        vc.insert("nonTransferable".into(), json!(false));
      }
    }
    if let Some(n) = g("vid")? {
      vc.insert("id".into(), json!(format!("https://e.x/c/{}", n)));
    }
    if let Some(x) = c.get("viss").filter(|x| x.as_str() != "~") {
      vc.insert("issuer".into(), issuer_val(x)?);
    }
    if let Some(u) = g("vnbf")? {
      vc.insert("issuanceDate".into(), json!(rfc(u)?));
    }
    if let Some(u) = g("vexp")? {
      vc.insert("expirationDate".into(), json!(rfc(u)?));
    }
    let issuer = issuer_val(c.get("iss")?)?;
    match m.get("st")?.as_str() {
      "~" => {}
      "o" => {
        vc.insert("credentialStatus".into(), json!({"id": "https://e.x/status#1", "type": "SomethingElse2020"}));
      }
      b => {
        // b<idx>: well formed; m<idx>.<q>: the id names index q, the property idx; a<q>: the property is absent
        let issuer_did = match &issuer {
          Value::String(s) => s.clone(),
          Value::Object(o) => o.get("id")?.as_str()?.to_string(),
          _ => return None,
        };
        let (prop, q): (Option<u32>, u32) = if let Some(x) = b.strip_prefix('b') {
          let i = x.parse().ok()?;
          (Some(i), i)
        } else if let Some(x) = b.strip_prefix('m') {
          let (i, q) = x.split_once('.')?;
          (Some(i.parse().ok()?), q.parse().ok()?)
        } else {
          (None, b.strip_prefix('a')?.parse().ok()?)
        };
        let mut st = json!({"id": format!("{}?index={}#rev", issuer_did, q), "type": "RevocationBitmap2022"});
        if let Some(i) = prop {
          st.as_object_mut()?.insert("revocationBitmapIndex".into(), json!(i.to_string()));
        }
        vc.insert("credentialStatus".into(), st);
      }
    }
    let mut cl = Map::new();
    if let Some(e) = g("exp")? {
      cl.insert("exp".into(), json!(e));
    }
    cl.insert("iss".into(), issuer);
    if let Some(e) = g("iat")? {
      cl.insert("iat".into(), json!(e));
    }
    if let Some(e) = g("nbf")? {
      cl.insert("nbf".into(), json!(e));
    }
    if let Some(n) = g("jti")? {
      cl.insert("jti".into(), json!(format!("https://e.x/c/{}", n)));
    }
    if let Some(n) = g("sub")? {
      cl.insert("sub".into(), json!(format!("did:ex:s{}", n)));
    }
    cl.insert("vc".into(), Value::Object(vc));
    Value::Object(cl).to_string()
  };
  Some((Value::Object(hdr).to_string(), claims_json, sig))
}

pub(crate) fn scope_of(t: &str) -> Option<Option<MethodScope>> {
  Some(match t {
    "~" => None,
    "vm" => Some(MethodScope::VerificationMethod),
    "0" => Some(MethodScope::VerificationRelationship(MethodRelationship::Authentication)),
    "1" => Some(MethodScope::VerificationRelationship(MethodRelationship::AssertionMethod)),
    "2" => Some(MethodScope::VerificationRelationship(MethodRelationship::KeyAgreement)),
    "3" => Some(MethodScope::VerificationRelationship(MethodRelationship::CapabilityDelegation)),
    "4" => Some(MethodScope::VerificationRelationship(MethodRelationship::CapabilityInvocation)),
    _ => return None,
  })
}

pub(crate) fn build_opts(t: &str) -> Option<(JwtCredentialValidationOptions, FailFast)> {
  let m = kvc(t, ';', ':');
  let mut v = JwsVerificationOptions::default();
  if let Some(n) = oi(&m, "n")? {
    v = v.nonce(format!("n{}", n));
  }
  if let Some(x) = m.get("mid").filter(|x| x.as_str() != "~") {
    v = v.method_id(DIDUrl::parse(id_str(parse_id(x)?)).ok()?);
  }
  if let Some(sc) = scope_of(m.get("sc")?)? {
    v = v.method_scope(sc);
  }
  let mut o = JwtCredentialValidationOptions::default()
    .verification_options(v)
    .status_check(match m.get("stc")?.as_str() {
      "strict" => StatusCheck::Strict,
      "skipu" => StatusCheck::SkipUnsupported,
      "skipall" => StatusCheck::SkipAll,
      _ => return None,
    });
  // `N<unix>`: the bound is left unset (the validator then reads the clock, which showed about <unix> when the request was made)
  if !m.get("ee")?.starts_with('N') {
    o = o.earliest_expiry_date(Timestamp::from_unix(oi(&m, "ee")??).ok()?);
  }
  if !m.get("li")?.starts_with('N') {
    o = o.latest_issuance_date(Timestamp::from_unix(oi(&m, "li")??).ok()?);
  }
  if let Some(x) = m.get("sh").filter(|x| x.as_str() != "~") {
    let (h, r) = x.split_once('.')?;
    let rel = match r {
      "a" => SubjectHolderRelationship::AlwaysSubject,
      "n" => SubjectHolderRelationship::SubjectOnNonTransferable,
      "y" => SubjectHolderRelationship::Any,
      _ => return None,
    };
    o = o.subject_holder_relationship(Url::parse(format!("did:ex:s{}", h)).ok()?, rel);
  }
  let ff = if m.get("ff")? == "1" { FailFast::FirstError } else { FailFast::AllErrors };
  Some((o, ff))
}

pub(crate) fn kind(e: &JwtValidationError) -> String {
  let s = format!("{:?}", e);
  match e {
    JwtValidationError::JwsDecodingError(_) if s.contains("invalid nonce value") => "nonce".into(),
    JwtValidationError::MethodDataLookupError { message, .. } => {
      if message.contains("could not extract kid") {
        "kidMissing".into()
      } else if message.contains("could not parse kid") {
        "kidParse".into()
      } else {
        "methodLookup".into()
      }
    }
    _ if s.starts_with("DocumentMismatch") => "documentMismatch".into(),
    JwtValidationError::Signature { .. } => "signature".into(),
    JwtValidationError::SignerUrl { .. } => "signerUrl".into(),
    JwtValidationError::IdentifierMismatch { .. } => "identifierMismatch".into(),
    JwtValidationError::ExpirationDate => "expirationDate".into(),
    JwtValidationError::IssuanceDate => "issuanceDate".into(),
    _ if s.starts_with("SubjectHolderRelationship") => "subjectHolder".into(),
    JwtValidationError::InvalidStatus(_) => "status:invalidStatus".into(),
    JwtValidationError::Revoked => "status:revoked".into(),
    _ if s.starts_with("ServiceLookupError") => "status:serviceLookup".into(),
    JwtValidationError::CredentialStructure(_) => {
      if s.contains("JwtClaimsSetDeserializationError") {
        "claimsJson".into()
      } else if s.contains("inconsistent issuer") {
        "claims:issuer".into()
      } else if s.contains("inconsistent issuanceDate") {
        "claims:issuanceDate".into()
      } else if s.contains("inconsistent credential expirationDate") {
        "claims:expirationDate".into()
      } else if s.contains("inconsistent credential id") {
        "claims:id".into()
      } else if s.contains("expected identifier in sub") {
        "claims:subjectMissing".into()
      } else if s.contains("identifiers do not match") {
        "claims:subjectMismatch".into()
      } else if s.contains("TimestampConversionError") {
        "claims:timestamp".into()
      } else {
        "structure".into()
      }
    }
    _ => format!("?{}", s.chars().take(60).collect::<String>()),
  }
}

pub(crate) fn show_cred(c: &identity_credential::credential::Credential) -> String {
  use identity_core::convert::ToJson;
  let v: Value = serde_json::from_str(&c.to_json().unwrap_or_default()).unwrap_or(Value::Null);
  let o = v.as_object().cloned().unwrap_or_default();
  let url = |x: Option<&Value>, p: &str| x.and_then(|s| s.as_str()).map(|s| s.strip_prefix(p).unwrap_or("?").to_string()).unwrap_or("~".into());
  let ts = |x: Option<&Value>| x.and_then(|s| s.as_str()).map(|s| Timestamp::parse(s).map(|t| t.to_unix().to_string()).unwrap_or("?".into())).unwrap_or("~".into());
  format!(
    "id={};iss={};nbf={};exp={};sub={}",
    url(o.get("id"), "https://e.x/c/"),
    o.get("issuer").map(show_issuer).unwrap_or("?".into()),
    ts(o.get("issuanceDate")),
    ts(o.get("expirationDate")),
    url(o.get("credentialSubject").and_then(|s| s.get("id")), "did:ex:s")
  )
}

pub fn run(args: &[&str]) -> String {
  KIND.with(|k| k.set('J'));
  let r = run_inner(args);
  KIND.with(|k| k.set('C'));
  r
}

fn run_inner(args: &[&str]) -> String {
  if args.len() != 4 {
    return "bad-request".into();
  }
  let docs: Vec<CoreDocument> = match args[1].split('/').map(build_doc).collect::<Option<Vec<_>>>() {
    Some(d) => d,
    None => return "bad-request".into(),
  };
  let tok = match args[2].strip_prefix("T=").and_then(build_token) {
    Some(t) => t,
    None => return "bad-request".into(),
  };
  let (opts, ff) = match args[3].strip_prefix("O=").and_then(build_opts) {
    Some(o) => o,
    None => return "bad-request".into(),
  };
  let v = JwtCredentialValidator::with_signature_verifier(ToyVerifier);
  let jwt = Jwt::new(tok.jwt);
  match args[0] {
    "val" => {
      if docs.len() != 1 {
        return "bad-request".into();
      }
      match v.validate::<CoreDocument, Object>(&jwt, &docs[0], &opts, ff) {
        Ok(d) => format!("ok:{}", show_cred(&d.credential)),
        Err(e) => format!("err:{}", e.validation_errors.iter().map(kind).collect::<Vec<_>>().join(",")),
      }
    }
    "ver" => match v.verify_signature::<CoreDocument, Object>(&jwt, &docs, &opts.verification_options) {
      Ok(d) => format!("ok:{}", show_cred(&d.credential)),
      Err(e) => format!("err:{}", kind(&e)),
    },
    _ => "bad-request".into(),
  }
}

// ---------------------------------------------------------------------------------------------------------
#[derive(Clone)]
struct Sc {
  doc: String,
  kid: String,
  hn: String,
  sig: u32,
  cl: String,
  ctx: u8,
  typ: u8,
  spe: u8,
  nt: String,
  st: String,
  n: String,
  mid: String,
  sc: String,
  ee: i64,
  li: i64,
  sh: String,
  stc: String,
  ff: u8,
}

impl Sc {
  fn base() -> Sc {
    Sc {
      // issuer 1: general method #1 (key 11), #2 embedded under assertionMethod (key 12), #3 without JWK,
      // a reference to #1 under authentication, a method of issuer 2 listed as capabilityInvocation
      doc: "D1;vm=1.0.1.11,1.0.3.0;a0=R1.0.1;a1=E1.0.2.12;a2=;a3=;a4=E2.0.1.13;sv=;bm=5,9".into(),
      kid: "1.0.1".into(),
      hn: "~".into(),
      sig: 11,
      cl: "exp=1000,iss=u1,iat=~,nbf=100,jti=1,sub=2,vid=~,viss=~,vnbf=~,vexp=~,vsub=~".into(),
      ctx: 1,
      typ: 1,
      spe: 0,
      nt: "~".into(),
      st: "b7".into(),
      n: "~".into(),
      mid: "~".into(),
      sc: "~".into(),
      ee: 500,
      li: 200,
      sh: "~".into(),
      stc: "strict".into(),
      ff: 0,
    }
  }
  fn line(&self, cmd: &str) -> String {
    format!(
      "C02 {} {} T=kid:{};hn:{};sig:{};cl:{};ctx:{};typ:{};spe:{};nt:{};st:{} O=n:{};mid:{};sc:{};ee:{};li:{};sh:{};stc:{};ff:{}",
      cmd, self.doc, self.kid, self.hn, self.sig, self.cl, self.ctx, self.typ, self.spe, self.nt, self.st, self.n, self.mid, self.sc, self.ee, self.li, self.sh, self.stc, self.ff
    )
  }
}

pub fn gen(thorough: bool, seed: u64, out: &mut impl Write) {
  let mut r = Rng::new(seed ^ 0xC02);
  // (a) every combination of thirteen conditions being broken, both error-reporting modes
  for bits in 0..(1u32 << 13) {
    for ff in [0u8, 1] {
      if !thorough && ff == 1 && bits % 3 != 0 {
        continue;
      }
      let mut s = Sc::base();
      s.ff = ff;
      let b = |k: u32| bits >> k & 1 == 1;
      if b(0) {
        s.hn = "4".into(); // nonce in the header, none expected
      }
      if b(1) {
        s.kid = if bits % 2 == 0 { "~".into() } else { "X".into() };
      }
      if b(2) {
        s.doc = s.doc.replacen("D1;", "D3;", 1); // the supplied document is another issuer's
      }
      if b(3) {
        s.kid = if s.kid.contains('.') { "1.0.3".into() } else { s.kid }; // a method without JWK
        if !b(1) {
          s.kid = "1.0.3".into();
        }
      }
      if b(4) {
        s.sig = 77;
      }
      if b(5) {
        s.cl = s.cl.replace("vid=~", "vid=9"); // vc.id disagrees with jti
      }
      if b(6) {
        s.cl = s.cl.replace("iss=u1", "iss=w1");
      }
      if b(7) && !b(6) {
        s.cl = s.cl.replace("iss=u1", "iss=u2");
      }
      if b(8) {
        s.li = 99;
      }
      if b(9) {
        s.ee = 1001;
      }
      if b(10) {
        s.typ = 0;
      }
      if b(11) {
        s.sh = "3.a".into();
      }
      if b(12) {
        s.st = "b9".into();
      }
      writeln!(out, "{}", s.line("val")).unwrap();
    }
  }
  // (a2) every combination of the five validation units failing, with a passing signature, in the three status modes
  for bits in 0..32u32 {
    for stc in ["strict", "skipu", "skipall"] {
      for ff in [0u8, 1] {
        for st in ["b9", "o"] {
          let mut s = Sc::base();
          let b = |k: u32| bits >> k & 1 == 1;
          s.ff = ff;
          s.stc = stc.into();
          if b(0) {
            s.li = 99;
          }
          if b(1) {
            s.ee = 1001;
          }
          if b(2) {
            s.ctx = 0;
          }
          if b(3) {
            s.sh = "3.n".into();
            s.nt = "1".into();
          }
          if b(4) {
            s.st = st.into();
          }
          writeln!(out, "{}", s.line("val")).unwrap();
        }
      }
    }
  }
  // (b) scopes: the signing method in each scope x the configured scope; kid vs method-id override
  let placements = [
    ("vm=1.0.1.11;a0=;a1=;a2=;a3=;a4=", "vm"),
    ("vm=;a0=E1.0.1.11;a1=;a2=;a3=;a4=", "0"),
    ("vm=;a0=;a1=E1.0.1.11;a2=;a3=;a4=", "1"),
    ("vm=;a0=;a1=;a2=E1.0.1.11;a3=;a4=", "2"),
    ("vm=;a0=;a1=;a2=;a3=E1.0.1.11;a4=", "3"),
    ("vm=;a0=;a1=;a2=;a3=;a4=E1.0.1.11", "4"),
    ("vm=1.0.1.11;a0=R1.0.1;a1=;a2=;a3=R1.0.1;a4=", "ref"),
  ];
  for (pl, _) in placements {
    for sc in ["~", "vm", "0", "1", "2", "3", "4"] {
      for (kid, mid) in [("1.0.1", "~"), ("~", "1.0.1"), ("1.0.9", "1.0.1"), ("1.0.1", "1.0.9"), ("X", "1.0.1"), ("1.1.1", "~"), ("2.0.1", "~")] {
        let mut s = Sc::base();
        s.doc = format!("D1;{};sv=;bm=-", pl);
        s.sc = sc.into();
        s.kid = kid.into();
        s.mid = mid.into();
        writeln!(out, "{}", s.line("val")).unwrap();
      }
    }
  }
  // (c) nonce on either side
  for hn in ["~", "4", "5"] {
    for n in ["~", "4", "5"] {
      let mut s = Sc::base();
      s.hn = hn.into();
      s.n = n.into();
      writeln!(out, "{}", s.line("val")).unwrap();
    }
  }
  // (c') bounds left unset: the validator reads the clock.  Dates far from now on either side (1970 / 2100), every
  // combination of set / unset bounds
  {
    let now = std::time::SystemTime::now().duration_since(std::time::UNIX_EPOCH).map(|d| d.as_secs() as i64).unwrap_or(1_800_000_000);
    let base = Sc::base();
    for exp in ["1000", "4102444800", "~"] {
      for nbf in ["100", "4102444800"] {
        for ee in ["500".to_string(), "4102444801".to_string(), format!("N{}", now)] {
          for li in ["200".to_string(), "4102444800".to_string(), format!("N{}", now)] {
            for ff in [0u8, 1] {
              let mut sc = base.clone();
              sc.ff = ff;
              sc.cl = sc.cl.replace("exp=1000", &format!("exp={}", exp)).replace("nbf=100", &format!("nbf={}", nbf));
              let l = sc.line("val").replace(";ee:500;", &format!(";ee:{};", ee)).replace(";li:200;", &format!(";li:{};", li));
              writeln!(out, "{}", l).unwrap();
            }
          }
        }
      }
    }
  }
  // (d) boundary timestamps: issuance vs latest-issuance bound, expiration vs earliest-expiry bound
  for d in [-1i64, 0, 1] {
    for e in [-1i64, 0, 1] {
      for exp in ["1000", "~"] {
        let mut s = Sc::base();
        s.li = 100 + d;
        s.ee = 1000 + e;
        s.cl = s.cl.replace("exp=1000", &format!("exp={}", exp));
        writeln!(out, "{}", s.line("val")).unwrap();
      }
    }
  }
  // (e) status modes x status kinds x membership x service present; subject-holder modes x subject x nonTransferable
  for stc in ["strict", "skipu", "skipall"] {
    for st in ["~", "o", "b5", "b6", "b9", "m7.5", "m5.7", "a5", "a7"] {
      for bm in [";bm=5,9", ";bm=-", ""] {
        let mut s = Sc::base();
        s.stc = stc.into();
        s.st = st.into();
        s.doc = format!("D1;vm=1.0.1.11;a0=;a1=;a2=;a3=;a4=;sv={}", bm);
        writeln!(out, "{}", s.line("val")).unwrap();
      }
    }
  }
  for sh in ["~", "2.a", "3.a", "2.n", "3.n", "2.y", "3.y"] {
    for nt in ["~", "0", "1"] {
      for sub in ["sub=2", "sub=~"] {
        let mut s = Sc::base();
        s.sh = sh.into();
        s.nt = nt.into();
        s.cl = s.cl.replace("sub=2", sub);
        for spe in [0u8, 1] {
          s.spe = spe;
          writeln!(out, "{}", s.line("val")).unwrap();
        }
      }
    }
  }
  // (f) structure facts, unparsable payload, issuer forms
  for ctx in [0u8, 1, 2, 3] {
    for typ in [0u8, 1, 3] {
      for spe in [0u8, 1] {
        for iss in ["u1", "o1.4", "w1", "u2", "o2.1"] {
          let mut s = Sc::base();
          s.ctx = ctx;
          s.typ = typ;
          s.spe = spe;
          s.cl = s.cl.replace("iss=u1", &format!("iss={}", iss));
          writeln!(out, "{}", s.line("val")).unwrap();
        }
      }
    }
  }
  let mut s = Sc::base();
  s.cl = "J".into();
  writeln!(out, "{}", s.line("val")).unwrap();
  // (g) verify_signature over several trusted issuers: the document is chosen by the DID of kid / method id
  let d1 = "D1;vm=1.0.1.11;a0=;a1=;a2=;a3=;a4=;sv=";
  let d2 = "D2;vm=2.0.1.21,1.0.1.11;a0=;a1=;a2=;a3=;a4=;sv=";
  let d1b = "D1;vm=1.0.1.31;a0=;a1=;a2=;a3=;a4=;sv=";
  for docs in [format!("{}/{}", d1, d2), format!("{}/{}", d2, d1), format!("{}/{}", d1b, d1), d2.to_string(), format!("{}/{}/{}", d2, d1b, d1)] {
    for kid in ["1.0.1", "2.0.1", "3.0.1"] {
      for sig in [11u32, 21, 31] {
        for iss in ["u1", "u2"] {
          let mut s = Sc::base();
          s.doc = docs.clone();
          s.kid = kid.into();
          s.sig = sig;
          s.cl = s.cl.replace("iss=u1", &format!("iss={}", iss));
          s.st = "~".into();
          writeln!(out, "{}", s.line("ver")).unwrap();
        }
      }
    }
  }
  // (h) random mixtures
  for _ in 0..(if thorough { 20000 } else { 1500 }) {
    let mut s = Sc::base();
    let p = *r.pick(&placements);
    s.doc = format!("D{};{};sv={}", r.pick(&[1, 1, 1, 2]), p.0, r.pick(&[";bm=5,9", ";bm=-", ""]));
    s.kid = r.pick(&["1.0.1", "1.0.1", "1.0.1", "~", "X", "1.0.2", "2.0.1"]).to_string();
    s.mid = r.pick(&["~", "~", "~", "1.0.1", "1.0.2"]).to_string();
    s.sc = r.pick(&["~", "~", "vm", "0", "1", "2", "3", "4"]).to_string();
    s.hn = r.pick(&["~", "~", "4"]).to_string();
    s.n = r.pick(&["~", "~", "4", "5"]).to_string();
    s.sig = *r.pick(&[11, 11, 11, 12, 77]);
    let iss = *r.pick(&["u1", "u1", "o1.2", "u2", "w1"]);
    s.cl = format!(
      "exp={},iss={},iat={},nbf={},jti={},sub={},vid={},viss={},vnbf={},vexp={},vsub={}",
      r.pick(&["1000", "999", "~", "253402300800"]),
      iss,
      r.pick(&["~", "~", "50"]),
      r.pick(&["100", "100", "101", "~"]),
      r.pick(&["1", "~"]),
      r.pick(&["2", "3", "~"]),
      r.pick(&["~", "~", "1", "9"]),
      r.pick(&["~", "~", iss, "u2"]),
      r.pick(&["~", "~", "100", "101"]),
      r.pick(&["~", "~", "1000", "999"]),
      r.pick(&["~", "~", "2", "3"])
    );
    s.ctx = *r.pick(&[1, 1, 1, 3, 0, 2]);
    s.typ = *r.pick(&[1, 1, 1, 3, 0]);
    s.spe = *r.pick(&[0, 0, 1]);
    s.nt = r.pick(&["~", "0", "1"]).to_string();
    s.st = r.pick(&["~", "o", "b5", "b7", "m7.5", "a5"]).to_string();
    s.ee = *r.pick(&[500, 1000, 1001]);
    s.li = *r.pick(&[200, 100, 99]);
    s.sh = r.pick(&["~", "2.a", "3.a", "2.n", "3.n", "3.y"]).to_string();
    s.stc = r.pick(&["strict", "skipu", "skipall"]).to_string();
    s.ff = r.below(2) as u8;
    writeln!(out, "{}", s.line("val")).unwrap();
  }
}
