import IdModel.IotaDid.Lemmas
/-!
# C17 — IOTA DIDs are normalised, decomposable, equal iff network and tag agree

`IotaDID::parse` lower-cases its input (Unicode `to_lowercase`, performed by the harness and
checked against the implementation); the model and the theorems start from the lower-cased bytes.
Constants (`METHOD`, `DEFAULT_NETWORK`, `TAG_BYTES_LEN`, `MAX_LENGTH`, placeholder tag) are
regenerated from the Rust source.
-/
namespace IdModel.Props.C17
open IdModel IdModel.Did IdModel.IotaDid IdModel.Gen.C17 IdModel.Gen.C10

theorem sl_to_end (s : Str) (a : Nat) : sl s a s.length = s.drop a := by
  unfold sl; rw [List.take_of_length_le (by simp)]

theorem sl_prefix (a b : Str) (i : Nat) (hi : i ≤ a.length) : sl (a ++ b) 4 i = sl a 4 i := by
  unfold sl
  rw [List.drop_append]
  by_cases h4 : 4 ≤ a.length
  · have : 4 - a.length = 0 := by omega
    rw [this, List.drop_zero, List.take_append_of_le_length (by simp; omega)]
  · have hi4 : i - 4 = 0 := by omega
    rw [hi4]; simp

theorem sl_suffix (a b : Str) : sl (a ++ b) a.length (a.length + b.length) = b := by
  unfold sl
  rw [List.drop_append_of_le_length (Nat.le_refl _), List.drop_length, List.nil_append]
  have : a.length + b.length - a.length = b.length := by omega
  rw [this, List.take_length]

theorem hexchar_ne_colon (c : Nat) (h : IsHexChar c) : c ≠ 58 ∧ c ≠ 37 ∧ isCharMethodId c = true ∧
    upCharMethodId c = true := by
  unfold IsHexChar IsLowerHex at h
  refine ⟨by omega, by omega, ?_, ?_⟩
  · unfold isCharMethodId
    simp only [Bool.or_eq_true, Bool.and_eq_true, decide_eq_true_eq, beq_iff_eq]
    omega
  · unfold upCharMethodId
    simp only [Bool.or_eq_true, Bool.and_eq_true, decide_eq_true_eq, beq_iff_eq]
    omega

/-- a tag that decodes: `0x` followed by exactly `2·n` hex digits -/
theorem tag_decodes (n : Nat) (t : Str) (bs : List Nat) (h : prefixHexDecode n t = some bs) :
    ∃ r, t = 48 :: 120 :: r ∧ r.length = 2 * n ∧ bs.length = n ∧ (∀ c ∈ r, IsHexChar c) ∧
      (∀ b ∈ bs, b < 256) ∧ hexDecodeAux r = some bs := by
  unfold prefixHexDecode at h
  split at h
  · rename_i r
    unfold hexDecode at h
    split at h
    · rename_i hl
      obtain ⟨h1, h2, h3⟩ := hexDecodeAux_spec r bs h
      exact ⟨r, rfl, hl, by omega, h1, h3, h⟩
    · cases h
  · cases h

theorem tag_chars (n : Nat) (t : Str) (bs : List Nat) (h : prefixHexDecode n t = some bs) :
    58 ∉ t ∧ t ≠ [] ∧ ∀ c ∈ t, isCharMethodId c = true ∧ upCharMethodId c = true := by
  obtain ⟨r, ht, _, _, hr, _, _⟩ := tag_decodes n t bs h
  subst ht
  refine ⟨?_, by simp, ?_⟩
  · intro hm
    simp only [List.mem_cons] at hm
    rcases hm with hm | hm | hm
    · omega
    · omega
    · exact (hexchar_ne_colon 58 (hr 58 hm)).1 rfl
  · intro c hc
    simp only [List.mem_cons] at hc
    rcases hc with hc | hc | hc
    · subst hc; decide
    · subst hc; decide
    · exact ⟨(hexchar_ne_colon c (hr c hc)).2.2.1, (hexchar_ne_colon c (hr c hc)).2.2.2⟩

theorem validMethodIdAux_nodelim : ∀ v : Str, validMethodIdAux v = true →
    ∀ x ∈ v, x ≠ 47 ∧ x ≠ 63 ∧ x ≠ 35 := by
  intro v
  induction hn : v.length using Nat.strongRecOn generalizing v with
  | _ n ih =>
    intro hv x hx
    match v, hn, hv, hx with
    | [], _, _, hx => cases hx
    | a :: rest, hn, hv, hx =>
      by_cases ha : a = 37
      · subst ha
        match rest, hn, hv, hx with
        | [], _, hv, _ => simp [validMethodIdAux] at hv
        | [b], _, hv, _ => simp [validMethodIdAux] at hv
        | b :: c' :: rest', hn, hv, hx =>
          simp only [validMethodIdAux, Bool.and_eq_true] at hv
          simp only [List.mem_cons] at hx
          have hb := hv.1.1; have hc' := hv.1.2
          unfold isHex at hb hc'
          simp only [Bool.or_eq_true, Bool.and_eq_true, decide_eq_true_eq] at hb hc'
          rcases hx with hx | hx | hx | hx
          · omega
          · omega
          · omega
          · exact ih rest'.length (by simp at hn; omega) rest' rfl hv.2 x hx
      · have e : validMethodIdAux (a :: rest) = (isCharMethodId a && validMethodIdAux rest) := by
          rw [validMethodIdAux]
          all_goals simp_all
        rw [e] at hv
        simp only [Bool.and_eq_true] at hv
        rcases List.mem_cons.1 hx with hx | hx
        · subst hx
          have := (isCharMethodId_ne x hv.1).2
          simp [stopId] at this; omega
        · exact ih rest.length (by simp at hn; omega) rest rfl hv.2 x hx

/-- shape of what the validity check + normalisation accept -/
theorem shape_checked (s : Str) (d0 d : CoreDid) (hp : parseDid s = .ok d0)
    (h : tryFromCoreChecked d0 = .ok d) :
    d.method = method ∧
    validNetwork (network d) = true ∧
    (∃ bs, tagBytes d = some bs ∧ bs.length = 32 ∧ ∀ b ∈ bs, b < 256) ∧
    d.methodId = (if network d = defaultNetwork then tag d else network d ++ 58 :: tag d) ∧
    d.str = [100, 105, 100, 58] ++ method ++ 58 :: d.methodId ∧
    (∀ c ∈ d.str, c ∈ s) ∧
    (∀ c ∈ d.str, c ≠ 47 ∧ c ≠ 63 ∧ c ≠ 35) := by
  · obtain ⟨hstr, i, hcore, hge, hlt, h4, hi58, hvn, hvi, hrec⟩ := parseDid_ok_core s d0 hp
    have hm0 : d0.method = sl s 4 i := by
      unfold CoreDid.method Core.methodOf; rw [hstr, hcore]
    have hid0 : d0.methodId = s.drop (i + 1) := by
      unfold CoreDid.methodId Core.methodIdOf; rw [hstr, hcore]; exact sl_to_end s (i + 1)
    unfold tryFromCoreChecked at h
    split at h
    · rename_i hcv
      unfold IotaDid.checkValidity at hcv
      simp only [Bool.and_eq_true, beq_iff_eq] at hcv
      obtain ⟨⟨hmeth, htag⟩, hnet⟩ := hcv
      rw [hm0] at hmeth
      rw [hid0] at htag hnet
      obtain ⟨bs, hbs⟩ := Option.isSome_iff_exists.1 htag
      obtain ⟨r, htr, hrl, hbl, hrc, hbb, _⟩ := tag_decodes tagBytesLen _ bs hbs
      have hilen : (sl s 4 i).length = i - 4 := by
        unfold sl; simp; omega
      have hmlen : method.length = i - 4 := by rw [← hmeth, hilen]
      -- no URL delimiters in s (plain DID)
      have hnodelim : ∀ c ∈ s, c ≠ 47 ∧ c ≠ 63 ∧ c ≠ 35 := by
        -- re-use the plain DID theorem's argument through the validators
        intro c hc
        rw [hrec] at hc
        simp only [List.mem_append, List.mem_cons, List.not_mem_nil, or_false] at hc
        rcases hc with ((hc | hc) | hc) | hc
        · omega
        · unfold validMethodName at hvn
          simp only [Bool.and_eq_true, List.all_eq_true] at hvn
          have := isCharMethodName_ne c (hvn.2 c hc)
          have h2 := hvn.2 c hc
          unfold isCharMethodName at h2
          simp only [Bool.or_eq_true, Bool.and_eq_true, decide_eq_true_eq] at h2
          omega
        · omega
        · -- method-id bytes: id characters or percent triples
          unfold validMethodId at hvi
          simp only [Bool.and_eq_true] at hvi
          exact validMethodIdAux_nodelim _ hvi.2 c hc
      unfold normalize at h
      simp only [hid0] at h
      rcases denorm_cases (s.drop (i + 1)) with ⟨hnc, hden⟩ | ⟨nn, tt, hmid, hnn, hden⟩
      · -- no explicit network: unchanged
        rw [hden] at h htag hnet
        simp only [beq_self_eq_true, Bool.true_or, ↓reduceIte] at h
        injection h with h; subst h
        have hnw : network d0 = defaultNetwork := by unfold network; rw [hid0, hden]
        have htg : tag d0 = s.drop (i + 1) := by unfold tag; rw [hid0, hden]
        rw [hden] at hbs
        refine ⟨by rw [hm0, hmeth], by rw [hnw]; exact hnet, ⟨bs, ?_, ?_, hbb⟩, ?_, ?_, ?_, ?_⟩
        · unfold tagBytes; rw [htg]; exact hbs
        · rw [hbl]; rfl
        · rw [hnw, if_pos rfl, htg, hid0]
        · rw [hstr, hid0]
          conv => lhs; rw [hrec, hmeth]
          simp only [List.append_assoc, List.singleton_append]
        · rw [hstr]; exact fun c hc => hc
        · rw [hstr]; exact hnodelim
      · rw [hden] at h htag hnet hbs
        simp only at h hbs
        obtain ⟨hnocolon, htne, htcls⟩ := tag_chars tagBytesLen tt bs hbs
        have hlenne : (tt.length == (s.drop (i + 1)).length) = false := by
          rw [hmid]; simp; omega
        simp only [hlenne, Bool.false_or] at h
        by_cases hdef : nn = defaultNetwork
        · -- explicit default network: dropped
          have : (nn != defaultNetwork) = false := by simp [hdef]
          simp only [this, Bool.false_eq_true, ↓reduceIte] at h
          unfold setMethodId at h
          have hvt : validMethodId tt = true := by
            unfold validMethodId
            have : tt.isEmpty = false := by
              cases htt : tt with
              | nil => exact absurd htt htne
              | cons => rfl
            simp only [this, Bool.not_false, Bool.true_and]
            exact validMethodIdAux_plain tt (fun c hc => (htcls c hc).1)
          simp only [hvt, ↓reduceIte] at h
          injection h with h
          rw [hstr, hcore] at h
          simp only at h
          -- the new value
          have htake : s.take (i + 1) = [100, 105, 100, 58] ++ method ++ [58] := by
            conv => lhs; rw [hrec, hmeth]
            rw [List.take_append_of_le_length (by simp; omega)]
            rw [List.take_of_length_le (by simp; omega)]
          have hmd : d.method = method := by
            rw [← h]
            unfold CoreDid.method Core.methodOf
            simp only
            rw [sl_prefix _ _ _ (by simp; omega)]
            have : sl (s.take (i + 1)) 4 i = sl s 4 i := by
              unfold sl
              rw [List.drop_take, List.take_take]
              congr 1; omega
            rw [this, hmeth]
          have hmidd : d.methodId = tt := by
            rw [← h]
            unfold CoreDid.methodId Core.methodIdOf
            simp only
            have hl : (s.take (i + 1)).length = i + 1 := by simp; omega
            have := sl_suffix (s.take (i + 1)) tt
            rw [hl] at this
            exact this
          have hdn : denorm tt = (defaultNetwork, tt) := denorm_nocolon tt hnocolon
          have hnw : network d = defaultNetwork := by unfold network; rw [hmidd, hdn]
          have htg : tag d = tt := by unfold tag; rw [hmidd, hdn]
          have hdstr : d.str = s.take (i + 1) ++ tt := by rw [← h]
          refine ⟨hmd, by rw [hnw, ← hdef]; exact hnet, ⟨bs, ?_, ?_, hbb⟩, ?_, ?_, ?_, ?_⟩
          · unfold tagBytes; rw [htg]; exact hbs
          · rw [hbl]; rfl
          · rw [hnw, if_pos rfl, htg, hmidd]
          · rw [hdstr, htake, hmidd]; simp only [List.append_assoc, List.singleton_append]
          · intro c hc
            rw [hdstr] at hc
            rcases List.mem_append.1 hc with hc | hc
            · exact List.mem_of_mem_take hc
            · have : c ∈ s.drop (i + 1) := by rw [hmid]; simp [hc]
              exact List.mem_of_mem_drop this
          · intro c hc
            rw [hdstr] at hc
            rcases List.mem_append.1 hc with hc | hc
            · exact hnodelim c (List.mem_of_mem_take hc)
            · have : c ∈ s.drop (i + 1) := by rw [hmid]; simp [hc]
              exact hnodelim c (List.mem_of_mem_drop this)
        · -- another network: unchanged
          have : (nn != defaultNetwork) = true := by simp [hdef]
          simp only [this, ↓reduceIte] at h
          injection h with h; subst h
          have hnw : network d0 = nn := by unfold network; rw [hid0, hden]
          have htg : tag d0 = tt := by unfold tag; rw [hid0, hden]
          refine ⟨by rw [hm0, hmeth], by rw [hnw]; exact hnet, ⟨bs, ?_, ?_, hbb⟩, ?_, ?_, ?_, ?_⟩
          · unfold tagBytes; rw [htg]; exact hbs
          · rw [hbl]; rfl
          · rw [hnw, if_neg hdef, htg, hid0, hmid]
          · rw [hstr, hid0]
            conv => lhs; rw [hrec, hmeth]
            simp only [List.append_assoc, List.singleton_append]
          · rw [hstr]; exact fun c hc => hc
          · rw [hstr]; exact hnodelim
    · cases h

theorem asciiLower_no_upper (s : Str) : ∀ c ∈ asciiLower s, isUpper c = false := by
  intro c hc
  unfold asciiLower at hc
  rcases List.mem_map.1 hc with ⟨x, _, hx⟩
  subst hx
  unfold isUpper
  by_cases h : (decide (65 ≤ x) && decide (x ≤ 90)) = true
  · have hh := h
    simp only [Bool.and_eq_true, decide_eq_true_eq] at hh
    simp only [isUpper, h, ↓reduceIte]
    have : ¬ (x + 32 ≤ 90) := by omega
    simp [this]
  · simp only [isUpper, h, Bool.false_eq_true, ↓reduceIte]

theorem tryFromCoreLowercases_eq : tryFromCoreLowercases = true := rfl

/-- **shape of every accepted IOTA DID** (through `parse`, `try_from_core` / `TryFrom<CoreDID>`
and deserialisation alike): method, network rule, 32-byte tag, normal form, recomposition,
**lower case**, no URL parts -/
theorem iota_shape (s : Str) (d : CoreDid) (h : parseLower s = .ok d) :
    d.method = method ∧
    validNetwork (network d) = true ∧
    (∃ bs, tagBytes d = some bs ∧ bs.length = 32 ∧ ∀ b ∈ bs, b < 256) ∧
    d.methodId = (if network d = defaultNetwork then tag d else network d ++ 58 :: tag d) ∧
    d.str = [100, 105, 100, 58] ++ method ++ 58 :: d.methodId ∧
    (∀ c ∈ d.str, isUpper c = false) ∧
    (∀ c ∈ d.str, c ≠ 47 ∧ c ≠ 63 ∧ c ≠ 35) := by
  unfold parseLower at h
  cases hp : parseDid s with
  | panic m => rw [hp] at h; cases h
  | err e => rw [hp] at h; cases h
  | ok d0 =>
    rw [hp] at h
    simp only at h
    have hstr : d0.str = s := (parseDid_ok_core s d0 hp).1
    unfold tryFromCore at h
    by_cases hu : d0.str.any isUpper = true
    · simp only [tryFromCoreLowercases_eq, hu, Bool.and_self, ↓reduceIte] at h
      cases hp2 : parseDid (asciiLower d0.str) with
      | panic m => rw [hp2] at h; cases h
      | err e => rw [hp2] at h; cases h
      | ok d1 =>
        rw [hp2] at h
        simp only at h
        obtain ⟨a, b, c, e, f, g, k⟩ := shape_checked (asciiLower d0.str) d1 d hp2 h
        exact ⟨a, b, c, e, f, fun x hx => asciiLower_no_upper _ x (g x hx), k⟩
    · have hu' : d0.str.any isUpper = false := by simpa using hu
      simp only [tryFromCoreLowercases_eq, hu', Bool.and_false, Bool.false_eq_true, ↓reduceIte] at h
      obtain ⟨a, b, c, e, f, g, k⟩ := shape_checked s d0 d hp h
      refine ⟨a, b, c, e, f, ?_, k⟩
      intro x hx
      have hxs : x ∈ d0.str := hstr ▸ g x hx
      rw [List.any_eq_false] at hu'
      simpa using hu' x hxs

theorem checked_never_panics (d0 : CoreDid) : (tryFromCoreChecked d0).isPanic = false := by
  unfold tryFromCoreChecked
  split
  · rename_i hcv
    unfold IotaDid.checkValidity at hcv
    simp only [Bool.and_eq_true, beq_iff_eq] at hcv
    obtain ⟨bs, hbs⟩ := Option.isSome_iff_exists.1 hcv.1.2
    unfold normalize
    simp only
    split
    · rfl
    · obtain ⟨_, htne, htcls⟩ := tag_chars tagBytesLen _ bs hbs
      have hvt : validMethodId (denorm d0.methodId).2 = true := by
        unfold validMethodId
        have : (denorm d0.methodId).2.isEmpty = false := by
          cases hh : (denorm d0.methodId).2 with
          | nil => exact absurd hh htne
          | cons => rfl
        simp only [this, Bool.not_false, Bool.true_and]
        exact validMethodIdAux_plain _ (fun c hc => (htcls c hc).1)
      unfold setMethodId
      simp only [hvt, ↓reduceIte]
      rfl
  · rfl

theorem parseDid_never_panics (s : Str) : (parseDid s).isPanic = false := by
  have hp := (IdModel.Did.parseBase_no_panic s)
  unfold parseDid
  cases hb : parseBase s with
  | panic m' => rw [hb] at hp; cases hp
  | err e => rfl
  | ok c => simp only; split <;> rfl

/-- `parse`, `try_from_core` and deserialisation never panic (the `expect` in `normalize` is
unreachable) -/
theorem parseLower_never_panics (s : Str) : (parseLower s).isPanic = false := by
  unfold parseLower
  have h1 := parseDid_never_panics s
  cases hd : parseDid s with
  | panic m => rw [hd] at h1; cases h1
  | err e => rfl
  | ok d0 =>
    simp only
    unfold tryFromCore
    split
    · have h2 := parseDid_never_panics (asciiLower d0.str)
      cases hd2 : parseDid (asciiLower d0.str) with
      | panic m => rw [hd2] at h2; cases h2
      | err e => rfl
      | ok d1 => exact checked_never_panics d1
    · exact checked_never_panics d0

/-- two accepted IOTA DIDs are equal exactly when their networks and tags are equal -/
theorem iota_eq_iff (s1 s2 : Str) (d1 d2 : CoreDid) (h1 : parseLower s1 = .ok d1)
    (h2 : parseLower s2 = .ok d2) :
    d1.str = d2.str ↔ (network d1 = network d2 ∧ tag d1 = tag d2) := by
  obtain ⟨_, _, _, hm1, hs1, _, _⟩ := iota_shape s1 d1 h1
  obtain ⟨_, _, _, hm2, hs2, _, _⟩ := iota_shape s2 d2 h2
  constructor
  · intro he
    rw [hs1, hs2] at he
    have : d1.methodId = d2.methodId := by
      have := List.append_cancel_left he
      injection this
    unfold network tag
    rw [this]; exact ⟨rfl, rfl⟩
  · rintro ⟨hn, ht⟩
    rw [hs1, hs2, hm1, hm2, hn, ht]

/-- … and the tags are equal exactly when the tag **bytes** are (values are held in lower case) -/
theorem tag_eq_iff_bytes (s1 s2 : Str) (d1 d2 : CoreDid) (h1 : parseLower s1 = .ok d1)
    (h2 : parseLower s2 = .ok d2) :
    tag d1 = tag d2 ↔ tagBytes d1 = tagBytes d2 := by
  constructor
  · intro h; unfold tagBytes; rw [h]
  · intro hb
    obtain ⟨_, _, ⟨bs1, hb1, _, _⟩, hm1, hs1, hsub1, _⟩ := iota_shape s1 d1 h1
    obtain ⟨_, _, ⟨bs2, hb2, _, _⟩, hm2, hs2, hsub2, _⟩ := iota_shape s2 d2 h2
    rw [hb1, hb2] at hb
    injection hb with hb; subst hb
    unfold tagBytes at hb1 hb2
    obtain ⟨r1, e1, _, _, c1, _, a1⟩ := tag_decodes _ _ _ hb1
    obtain ⟨r2, e2, _, _, c2, _, a2⟩ := tag_decodes _ _ _ hb2
    have low : ∀ (d : CoreDid) (r : Str), (∀ c ∈ d.str, isUpper c = false) →
        (∀ c ∈ r, IsHexChar c) → (∀ c ∈ r, c ∈ d.str) → ∀ c ∈ r, IsLowerHex c := by
      intro d r hl hc hin c hcr
      have := hl c (hin c hcr)
      rcases hc c hcr with h | h
      · exact h
      · unfold isUpper at this
        simp only [Bool.and_eq_false_iff, decide_eq_false_iff_not] at this
        omega
    have mem_tag : ∀ (d : CoreDid), d.str = [100, 105, 100, 58] ++ method ++ 58 :: d.methodId →
        d.methodId = (if network d = defaultNetwork then tag d else network d ++ 58 :: tag d) →
        ∀ c ∈ tag d, c ∈ d.str := by
      intro d hs hm c hc
      rw [hs, hm]
      split <;> simp [hc]
    have q1 : ∀ c ∈ r1, c ∈ d1.str := fun c hc => mem_tag d1 hs1 hm1 c (by rw [e1]; simp [hc])
    have q2 : ∀ c ∈ r2, c ∈ d2.str := fun c hc => mem_tag d2 hs2 hm2 c (by rw [e2]; simp [hc])
    have := hexDecodeAux_inj_lower r1 r2 bs1 a1 a2 (low d1 r1 hsub1 c1 q1) (low d2 r2 hsub2 c2 q2)
    rw [e1, e2, this]

theorem alnum_idchar (c : Nat) (h : isLowerAlnum c = true) :
    isCharMethodId c = true ∧ upCharMethodId c = true ∧ c ≠ 58 := by
  unfold isLowerAlnum at h
  simp only [Bool.or_eq_true, Bool.and_eq_true, decide_eq_true_eq] at h
  refine ⟨?_, ?_, by omega⟩
  · unfold isCharMethodId
    simp only [Bool.or_eq_true, Bool.and_eq_true, decide_eq_true_eq, beq_iff_eq]; omega
  · unfold upCharMethodId
    simp only [Bool.or_eq_true, Bool.and_eq_true, decide_eq_true_eq, beq_iff_eq]; omega

theorem encode_chars (bs : List Nat) (h : ∀ b ∈ bs, b < 256) :
    ∀ c ∈ prefixHexEncode bs, IsHexChar c ∨ c = 120 := by
  intro c hc
  unfold prefixHexEncode at hc
  simp only [List.mem_cons, List.mem_flatMap, List.not_mem_nil, or_false] at hc
  rcases hc with hc | hc | ⟨b, hb, hc | hc⟩
  · left; subst hc; left; left; omega
  · right; exact hc
  · left; left; subst hc; exact hexDigit_lower _ (by have := h b hb; omega)
  · left; left; subst hc; exact hexDigit_lower _ (by omega)

/-- **the constructor** never panics for a valid network name and exposes exactly the given
network name and tag bytes -/
theorem new_spec (bytes : List Nat) (net : Str) (hb : bytes.length = 32) (hbb : ∀ b ∈ bytes, b < 256)
    (hn : validNetwork net = true) :
    ∃ d, new bytes net = .ok d ∧ network d = net ∧ tagBytes d = some bytes := by
  have hmeth : method = [105, 111, 116, 97] := rfl
  unfold validNetwork at hn
  simp only [Bool.and_eq_true, Bool.not_eq_true', decide_eq_true_eq, List.all_eq_true] at hn
  obtain ⟨⟨hne, hlen⟩, hall⟩ := hn
  have hnetcolon : 58 ∉ net := fun hm => (alnum_idchar 58 (hall 58 hm)).2.2 rfl
  -- the formatted string in the shape of `parseDid_complete`
  have hshape : [100, 105, 100, 58] ++ method ++ [58] ++ net ++ [58] ++ prefixHexEncode bytes =
      [100, 105, 100, 58] ++ method ++ [58] ++ (net ++ 58 :: prefixHexEncode bytes) := by
    simp only [List.append_assoc, List.cons_append, List.nil_append]
  have hidc : ∀ c ∈ net ++ 58 :: prefixHexEncode bytes,
      isCharMethodId c = true ∧ upCharMethodId c = true := by
    intro c hc
    rcases List.mem_append.1 hc with hc | hc
    · exact ⟨(alnum_idchar c (hall c hc)).1, (alnum_idchar c (hall c hc)).2.1⟩
    · rcases List.mem_cons.1 hc with hc | hc
      · subst hc; decide
      · rcases encode_chars bytes hbb c hc with h1 | h1
        · exact ⟨(hexchar_ne_colon c h1).2.2.1, (hexchar_ne_colon c h1).2.2.2⟩
        · subst h1; decide
  have hpd := parseDid_complete method (net ++ 58 :: prefixHexEncode bytes) (by decide)
    (by decide) (by simp) hidc
  unfold new parseLower
  rw [hshape, hpd]
  simp only
  -- validity
  have hdec : prefixHexDecode tagBytesLen (prefixHexEncode bytes) = some bytes := by
    have := prefixHexDecode_encode bytes hbb
    rw [hb] at this; exact this
  have hden : denorm (net ++ 58 :: prefixHexEncode bytes) = (net, prefixHexEncode bytes) :=
    denorm_append net _ hnetcolon
  have hm0 : CoreDid.method ⟨[100, 105, 100, 58] ++ method ++ [58] ++ (net ++ 58 :: prefixHexEncode bytes),
      ⟨3, 4 + method.length, 5 + method.length + (net ++ 58 :: prefixHexEncode bytes).length, none, none⟩⟩ = method := by
    unfold CoreDid.method Core.methodOf; exact sl_method _ _
  have hid0 : CoreDid.methodId ⟨[100, 105, 100, 58] ++ method ++ [58] ++ (net ++ 58 :: prefixHexEncode bytes),
      ⟨3, 4 + method.length, 5 + method.length + (net ++ 58 :: prefixHexEncode bytes).length, none, none⟩⟩ =
      net ++ 58 :: prefixHexEncode bytes := by
    unfold CoreDid.methodId Core.methodIdOf; exact sl_id _ _
  have hnoup : List.any ([100, 105, 100, 58] ++ method ++ [58] ++ (net ++ 58 :: prefixHexEncode bytes)) isUpper = false := by
    rw [List.any_eq_false]
    intro c hc
    simp only [List.mem_append, List.mem_cons, List.not_mem_nil, or_false] at hc
    unfold isUpper
    simp only [Bool.and_eq_true, decide_eq_true_eq, not_and, Nat.not_le]
    intro h65
    rcases hc with (((hc | hc) | hc) | hc)
    · omega
    · rw [hmeth] at hc; simp at hc; omega
    · omega
    · rcases hc with hc | hc | hc
      · have := hall c hc
        unfold isLowerAlnum at this
        simp only [Bool.or_eq_true, Bool.and_eq_true, decide_eq_true_eq] at this
        omega
      · omega
      · rcases encode_chars bytes hbb c hc with h1 | h1
        · rcases h1 with h1 | h1
          · unfold IsLowerHex at h1; omega
          · -- upper-case hex digits never occur in the encoder's output
            exfalso
            unfold prefixHexEncode at hc
            simp only [List.mem_cons, List.mem_flatMap, List.not_mem_nil, or_false] at hc
            rcases hc with hc | hc | ⟨b, hb', hc | hc⟩
            · omega
            · omega
            · have := hexDigit_lower (b / 16) (by have := hbb b hb'; omega)
              rw [← hc] at this; unfold IsLowerHex at this; omega
            · have := hexDigit_lower (b % 16) (by omega)
              rw [← hc] at this; unfold IsLowerHex at this; omega
        · omega
  unfold tryFromCore
  simp only [hnoup, Bool.and_false, Bool.false_eq_true, ↓reduceIte]
  unfold tryFromCoreChecked IotaDid.checkValidity
  rw [hm0, hid0, hden]
  have hvn : validNetwork net = true := by
    unfold validNetwork
    simp only [Bool.and_eq_true, Bool.not_eq_true', decide_eq_true_eq, List.all_eq_true]
    exact ⟨⟨hne, hlen⟩, hall⟩
  simp only [beq_self_eq_true, hdec, Option.isSome_some, Bool.and_self, hvn, ↓reduceIte]
  unfold normalize
  simp only [hid0, hden]
  have hlenne : ((prefixHexEncode bytes).length == (net ++ 58 :: prefixHexEncode bytes).length) = false := by
    simp; omega
  simp only [hlenne, Bool.false_or]
  by_cases hdef : net = defaultNetwork
  · have : (net != defaultNetwork) = false := by simp [hdef]
    simp only [this, Bool.false_eq_true, ↓reduceIte]
    obtain ⟨hnocolon, htne, htcls⟩ := tag_chars tagBytesLen _ bytes hdec
    have hvt : validMethodId (prefixHexEncode bytes) = true := by
      unfold validMethodId
      have : (prefixHexEncode bytes).isEmpty = false := by
        cases htt : prefixHexEncode bytes with
        | nil => exact absurd htt htne
        | cons => rfl
      simp only [this, Bool.not_false, Bool.true_and]
      exact validMethodIdAux_plain _ (fun c hc => (htcls c hc).1)
    unfold setMethodId
    simp only [hvt, ↓reduceIte]
    refine ⟨_, rfl, ?_⟩
    -- the normalised value
    have hmidd : CoreDid.methodId
        ⟨([100, 105, 100, 58] ++ method ++ [58] ++ (net ++ 58 :: prefixHexEncode bytes)).take (4 + method.length + 1) ++
            prefixHexEncode bytes,
          ⟨3, 4 + method.length, 4 + method.length + 1 + (prefixHexEncode bytes).length, none, none⟩⟩ =
        prefixHexEncode bytes := by
      unfold CoreDid.methodId Core.methodIdOf
      simp only
      have hl : (([100, 105, 100, 58] ++ method ++ [58] ++ (net ++ 58 :: prefixHexEncode bytes)).take
          (4 + method.length + 1)).length = 4 + method.length + 1 := by
        simp; omega
      have := sl_suffix (([100, 105, 100, 58] ++ method ++ [58] ++ (net ++ 58 :: prefixHexEncode bytes)).take
          (4 + method.length + 1)) (prefixHexEncode bytes)
      rw [hl] at this
      exact this
    have hdn : denorm (prefixHexEncode bytes) = (defaultNetwork, prefixHexEncode bytes) :=
      denorm_nocolon _ hnocolon
    constructor
    · unfold network; rw [hmidd, hdn, hdef]
    · unfold tagBytes tag; rw [hmidd, hdn]; exact hdec
  · have : (net != defaultNetwork) = true := by simp [hdef]
    simp only [this, ↓reduceIte]
    refine ⟨_, rfl, ?_, ?_⟩
    · unfold network; rw [hid0, hden]
    · unfold tagBytes tag; rw [hid0, hden]; exact hdec

/-! ## non-vacuity -/

example : validNetwork [109, 97, 105, 110] = true ∧ validNetwork [77, 97, 105, 110] = false ∧
    validNetwork [] = false ∧ validNetwork [97, 98, 99, 100, 101, 102, 103] = false := by decide

end IdModel.Props.C17
