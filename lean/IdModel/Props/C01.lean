import IdModel.Jose.JwsLemmas
import IdModel.Jose.VerifierLemmas
/-!
# C01 — JWS verification binds the signature to exactly the bytes received

`P` (header JSON → header) and `V` (the signature scheme) are parameters.  What is a property of
this code: for every accepted token the verifier is called with `alg` from the protected header,
the caller's key, message = received protected segment ++ "." ++ received payload and signature =
base64url-decode of the received signature segment; "verified" is reported only if that call
succeeded and the key's pinned `alg` (if any) agrees; the claims are the signed payload; and the
map token ↦ (message, signature) is injective on accepted tokens.
-/
namespace IdModel.Props.C01
open IdModel IdModel.Jose

/-- effective payload of a compact token: the detached one, or the non-empty embedded one -/
theorem expandPayload_spec (det : Option Bytes) (emb pl : Bytes)
    (h : expandPayload det (some emb) = some pl) :
    (det = some pl ∧ emb = []) ∨ (det = none ∧ emb = pl ∧ pl ≠ []) := by
  unfold expandPayload at h
  by_cases he : emb = []
  · subst he
    simp only [Option.filter, List.isEmpty_nil, Bool.not_true, Bool.false_eq_true, ↓reduceIte] at h
    cases det with
    | none => simp at h
    | some d => simp at h; left; exact ⟨by rw [h], rfl⟩
  · have : (some emb).filter (fun p => !p.isEmpty) = some emb := by
      cases emb with
      | nil => exact absurd rfl he
      | cons => rfl
    rw [this] at h
    cases det with
    | none => simp at h; right; exact ⟨rfl, h, h ▸ he⟩
    | some d => simp at h

/-- **shape of every accepted compact token** -/
theorem decodeCompact_shape (P : Bytes → Option Hdr) (tok : Bytes) (det : Option Bytes) (it : Item)
    (h : decodeCompact P tok det = some it) :
    ∃ s0 s1 s2 pl hb hd,
      tok = s0 ++ 46 :: (s1 ++ 46 :: s2) ∧ 46 ∉ s0 ∧ 46 ∉ s1 ∧ 46 ∉ s2 ∧
      ((det = some pl ∧ s1 = []) ∨ (det = none ∧ s1 = pl ∧ pl ≠ [])) ∧
      it.signingInput = s0 ++ 46 :: pl ∧
      B64.dec s2 = some it.signature ∧
      B64.dec s0 = some hb ∧ P hb = some hd ∧ it.prot = some hd ∧ it.unprot = none ∧
      validate (some hd) none = .ok () ∧
      (if hd.b64.getD true then B64.dec pl = some it.claims else it.claims = pl) := by
  unfold decodeCompact at h
  split at h
  · rename_i s0 s1 s2 hsp
    obtain ⟨etok, n0, n1, n2⟩ := (splitOn_three tok s0 s1 s2).1 hsp
    cases hpl : expandPayload det (some s1) with
    | none => rw [hpl] at h; cases h
    | some pl =>
      rw [hpl] at h
      simp only at h
      unfold decodeSignature at h
      simp only at h
      cases hd0 : B64.dec s0 with
      | none => simp [hd0] at h
      | some hb =>
        simp only [hd0] at h
        cases hp : P hb with
        | none => simp [hp] at h
        | some hd =>
          simp only [hp, Option.map_some] at h
          cases hv : validate (some hd) none with
          | error e => simp [hv] at h
          | ok u =>
            simp only [hv] at h
            cases hs : B64.dec s2 with
            | none => simp [hs] at h
            | some sig =>
              simp only [hs] at h
              by_cases hb64 : hd.b64.getD true = true
              · have e : ((some hd).bind (·.b64)).getD true = true := by simpa using hb64
                simp only [e, ↓reduceIte] at h
                cases hc : B64.dec pl with
                | none => simp [hc] at h
                | some claims =>
                  simp only [hc, Option.isNone_some, Bool.false_and, Bool.false_eq_true, ↓reduceIte,
                    Option.some.injEq] at h
                  subst h
                  exact ⟨s0, s1, s2, pl, hb, hd, etok, n0, n1, n2, expandPayload_spec det s1 pl hpl,
                    rfl, hs, hd0, hp, rfl, rfl, by cases u; exact hv, by simp [hb64, hc]⟩
              · have e : ((some hd).bind (·.b64)).getD true = false := by simpa using hb64
                simp only [e, Bool.false_eq_true, ↓reduceIte, Option.isNone_some, Bool.false_and,
                  Option.some.injEq] at h
                subst h
                exact ⟨s0, s1, s2, pl, hb, hd, etok, n0, n1, n2, expandPayload_spec det s1 pl hpl,
                  rfl, hs, hd0, hp, rfl, rfl, by cases u; exact hv, by simp [hb64]⟩
  · cases h

/-- the same facts for one signature of the JSON serializations (members after the JSON layer) -/
theorem decodeSignature_shape (P : Bytes → Option Hdr) (payload : Bytes) (prot : Option Bytes)
    (u : Option Hdr) (sg : Bytes) (it : Item) (h : decodeSignature P payload prot u sg = some it) :
    it.signingInput = prot.getD [] ++ 46 :: payload ∧
    B64.dec sg = some it.signature ∧
    it.unprot = u ∧
    (match prot with
      | none => it.prot = none
      | some p => ∃ hb hd, B64.dec p = some hb ∧ P hb = some hd ∧ it.prot = some hd) ∧
    validate it.prot u = .ok () ∧
    (if (it.prot.bind (·.b64)).getD true then B64.dec payload = some it.claims else it.claims = payload) ∧
    (it.prot.isSome ∨ u.isSome) := by
  unfold decodeSignature at h
  simp only at h
  split at h
  · cases h
  · rename_i ph hph
    split at h
    · cases h
    · rename_i hv
      split at h
      · cases h
      · rename_i sig hs
        split at h
        · cases h
        · rename_i claims hc
          split at h
          · cases h
          · rename_i hnone
            injection h with h; subst h
            refine ⟨rfl, hs, rfl, ?_, hv, ?_, ?_⟩
            · cases prot with
              | none => simp at hph; simp [hph]
              | some p =>
                simp only at hph ⊢
                cases hd : B64.dec p with
                | none => simp [hd] at hph
                | some hb =>
                  simp only [hd] at hph
                  cases hp : P hb with
                  | none => simp [hp] at hph
                  | some hd' => simp [hp] at hph; exact ⟨hb, hd', rfl, hp, hph.symm⟩
            · simp only
              split at hc
              · rename_i hb; simp [hb, hc]
              · rename_i hb
                injection hc with hc
                simp [hb, hc]
            · simp only [Bool.and_eq_true, Option.isNone_iff_eq_none, not_and] at hnone
              simp only
              cases ph with
              | none =>
                right
                cases u with
                | none => exact absurd rfl (hnone rfl)
                | some _ => rfl
              | some _ => left; rfl

/-- **flattened JSON serialisation**: the effective payload is the detached one or the non-empty embedded one, and the
item is what `decodeSignature` yields for the received members — so every fact of `decodeSignature_shape` holds with
the payload and the protected segment AS RECEIVED -/
theorem decodeFlattened_shape (P : Bytes → Option Hdr) (payload : Option Bytes) (m : SigMembers) (det : Option Bytes)
    (it : Item) (h : decodeFlattened P payload m det = some it) :
    ∃ pl, expandPayload det payload = some pl ∧
      it.signingInput = m.prot.getD [] ++ 46 :: pl ∧ B64.dec m.signature = some it.signature ∧ it.unprot = m.header ∧
      validate it.prot m.header = .ok () ∧
      (if (it.prot.bind (·.b64)).getD true then B64.dec pl = some it.claims else it.claims = pl) := by
  unfold decodeFlattened at h
  cases hp : expandPayload det payload with
  | none => rw [hp] at h; cases h
  | some pl =>
    rw [hp] at h
    obtain ⟨a, b, c, _, e, f, _⟩ := decodeSignature_shape P pl m.prot m.header m.signature it h
    exact ⟨pl, rfl, a, b, c, e, f⟩

/-- **general JSON serialisation**: one result per `signatures` entry, every accepted one over the same effective
payload and its own protected segment as received -/
theorem decodeGeneral_shape (P : Bytes → Option Hdr) (payload : Option Bytes) (sigs : List SigMembers)
    (det : Option Bytes) (items : List (Option Item)) (h : decodeGeneral P payload sigs det = some items) :
    ∃ pl, expandPayload det payload = some pl ∧
      items = sigs.map (fun m => decodeSignature P pl m.prot m.header m.signature) ∧
      ∀ m ∈ sigs, ∀ it, decodeSignature P pl m.prot m.header m.signature = some it →
        it.signingInput = m.prot.getD [] ++ 46 :: pl ∧ B64.dec m.signature = some it.signature ∧
        it.unprot = m.header ∧ validate it.prot m.header = .ok () ∧
        (if (it.prot.bind (·.b64)).getD true then B64.dec pl = some it.claims else it.claims = pl) := by
  unfold decodeGeneral at h
  cases hp : expandPayload det payload with
  | none => rw [hp] at h; cases h
  | some pl =>
    rw [hp] at h
    simp only at h
    have key : ∀ (c : Bool) (x : List (Option Item)), (if c = true then some x else none) = some items → x = items := by
      intro c x hh
      cases c
      · simp at hh
      · simpa using hh
    have hx := key _ _ h
    refine ⟨pl, rfl, hx.symm, ?_⟩
    intro m _ it hit
    obtain ⟨a, b, c, _, e, f, _⟩ := decodeSignature_shape P pl m.prot m.header m.signature it hit
    exact ⟨a, b, c, e, f⟩

/-- **"verified" only after a successful check with `alg` from the protected header** -/
theorem verify_sound (V : String → Key → Bytes → Bytes → Bool) (it : Item) (key : Key)
    (p : Hdr) (u : Option Hdr) (c : Bytes) (h : verify V it key = .ok (p, u, c)) :
    it.prot = some p ∧ u = it.unprot ∧ c = it.claims ∧
    ∃ a, p.alg = some a ∧ (key.alg = none ∨ key.alg = some a) ∧
      V a key it.signingInput it.signature = true := by
  unfold verify at h
  split at h
  · cases h
  · rename_i p' hp'
    split at h
    · cases h
    · rename_i a ha
      split at h
      · cases h
      · rename_i hk
        split at h
        · rename_i hv
          injection h with h
          injection h with h1 h2
          injection h2 with h2 h3
          subst h1; subst h2; subst h3
          refine ⟨hp', rfl, rfl, a, ha, ?_, hv⟩
          cases hka : key.alg with
          | none => left; rfl
          | some k =>
            right
            have : k = a := by simpa [hka] using hk
            rw [this]
        · cases h

/-- no protected header, or no `alg` in it ⇒ not verified, whatever the unprotected header says,
and the verifier's answer is irrelevant -/
theorem verify_alg_only_from_protected (V : String → Key → Bytes → Bytes → Bool) (it : Item) (key : Key)
    (h : it.prot = none ∨ ∃ p, it.prot = some p ∧ p.alg = none) :
    ∃ e, verify V it key = .error e ∧ (e = .missingProtected ∨ e = .protectedWithoutAlg) := by
  unfold verify
  rcases h with h | ⟨p, hp, ha⟩
  · rw [h]; exact ⟨_, rfl, Or.inl rfl⟩
  · rw [hp]; simp only [ha]; exact ⟨_, rfl, Or.inr rfl⟩

/-- **the verifier's input determines the token**: two accepted compact tokens (same detached
argument) that reach the verifier with the same message and the same signature are equal -/
theorem verifier_input_injective (P : Bytes → Option Hdr) (t1 t2 : Bytes) (det : Option Bytes)
    (i1 i2 : Item) (h1 : decodeCompact P t1 det = some i1) (h2 : decodeCompact P t2 det = some i2)
    (hm : i1.signingInput = i2.signingInput) (hs : i1.signature = i2.signature) : t1 = t2 := by
  obtain ⟨a0, a1, a2, apl, _, _, e1, n0, _, _, c1, si1, d1, _⟩ := decodeCompact_shape P t1 det i1 h1
  obtain ⟨b0, b1, b2, bpl, _, _, e2, m0, _, _, c2, si2, d2, _⟩ := decodeCompact_shape P t2 det i2 h2
  rw [si1, si2] at hm
  obtain ⟨e0, epl⟩ := first_dot_unique a0 b0 apl bpl n0 m0 hm
  have es : a2 = b2 := B64.dec_injective a2 b2 i1.signature d1 (hs ▸ d2)
  have e1' : a1 = b1 := by
    rcases c1 with ⟨hd1, ha1⟩ | ⟨hd1, ha1, _⟩
    · rcases c2 with ⟨_, hb1⟩ | ⟨hd2, _, _⟩
      · rw [ha1, hb1]
      · rw [hd1] at hd2; cases hd2
    · rcases c2 with ⟨hd2, _⟩ | ⟨_, hb1, _⟩
      · rw [hd1] at hd2; cases hd2
      · rw [ha1, hb1, epl]
  rw [e1, e2, e0, e1', es]

/-- consequently any change to an accepted token — header, payload or signature segment — that
is still accepted reaches the verifier as a different (message, signature) pair -/
theorem tamper_reaches_verifier_differently (P : Bytes → Option Hdr) (t1 t2 : Bytes)
    (det : Option Bytes) (i1 i2 : Item) (h1 : decodeCompact P t1 det = some i1)
    (h2 : decodeCompact P t2 det = some i2) (hne : t1 ≠ t2) :
    (i1.signingInput, i1.signature) ≠ (i2.signingInput, i2.signature) := by
  intro he
  injection he with hm hs
  exact hne (verifier_input_injective P t1 t2 det i1 i2 h1 h2 hm hs)

/-! ## non-vacuity -/

/-- a stub header parser for the examples: `{}`-like one-byte headers -/
def Pex (b : Bytes) : Option Hdr := if b = [1] then some { alg := some "EdDSA" } else none

example : (decodeCompact Pex (B64.enc [1] ++ 46 :: (B64.enc [104, 105] ++ 46 :: B64.enc [9])) none).map
    (fun it => (it.claims, it.signature)) = some ([104, 105], [9]) := by decide +kernel


/-! ## the library's own verifiers (`EdDSAJwsVerifier`, `EcDSAJwsVerifier`) as the parameter `V`

The dispatch tables and guard clauses are regenerated from `identity_eddsa_verifier` / `identity_ecdsa_verifier`
(`Gen.C01`); the third-party cryptography stays a parameter (`Verifier.Crypto`). -/

section LibraryVerifiers
open Verifier

/-- **`EdDSAJwsVerifier` accepts only**: algorithm `EdDSA`, an OKP key whose `crv` is exactly `Ed25519`, a 32-byte `x` that is
a point, a 64-byte signature the scheme accepts -/
theorem ed_sound (alg : String) (k : KeyMat) (n : Nat) (c : Crypto) (h : dispatch .ed alg k n c = .ok ()) :
    alg = "EdDSA" ∧ k.kty = .okp ∧ k.crv = "Ed25519" ∧ k.xLen = some 32 ∧ n = 64 ∧
    c.point "Ed25519" = true ∧ c.sigOk "Ed25519" = true := by
  unfold dispatch at h
  simp only [Gen.C01.edAlgs, List.contains_cons, List.contains_nil, Bool.or_false, beq_iff_eq] at h
  split at h
  · rename_i ha
    unfold ed25519 at h
    rw [firstFail_ok] at h
    simp only [Gen.C01.edCurveMustEqual, Gen.C01.edKeyLen, Gen.C01.edSigLen, List.mem_cons, List.not_mem_nil, or_false,
      forall_eq_or_imp, forall_eq] at h
    obtain ⟨h1, h2, h3, h4, h5, h6⟩ := h
    simp at h1 h2 h3 h4 h5 h6
    exact ⟨ha, h1, h2, h3, h5, h4, h6⟩
  · cases h

/-- **`EcDSAJwsVerifier` accepts only**: algorithm `ES256` / `ES256K`, the curve chosen BY THAT ALGORITHM NAME (never by the
key's `crv`), an EC key with 32-byte coordinates that are a point of that curve, a 64-byte signature that curve's scheme
accepts -/
theorem ec_sound (alg : String) (k : KeyMat) (n : Nat) (c : Crypto) (h : dispatch .ec alg k n c = .ok ()) :
    ∃ curve, ((alg = "ES256" ∧ curve = "P-256") ∨ (alg = "ES256K" ∧ curve = "secp256k1")) ∧
      k.kty = .ec ∧ k.xLen = some 32 ∧ k.yLen = some 32 ∧ n = 64 ∧ c.point curve = true ∧ c.sigOk curve = true := by
  unfold dispatch at h
  simp only at h
  split at h
  · rename_i curve hl
    refine ⟨curve, ?_, ?_⟩
    · simp only [Gen.C01.ecAlgs, List.lookup] at hl
      split at hl
      · rename_i he; left; simp at he; injection hl with hl; exact ⟨he, hl.symm⟩
      · split at hl
        · rename_i he; right; simp at he; injection hl with hl; exact ⟨he, hl.symm⟩
        · cases hl
    · unfold ecdsa at h
      rw [firstFail_ok] at h
      simp only [Gen.C01.ecChecksCrv, Gen.C01.ecCoordLen, Gen.C01.ecSigLen, List.mem_cons, List.not_mem_nil, or_false,
        forall_eq_or_imp, forall_eq] at h
      obtain ⟨h1, _, _, h4, _, h6, h7, h8⟩ := h
      simp at h1 h4 h6 h7 h8
      exact ⟨h1, h4.1, h4.2, h7, h6, h8⟩
  · cases h

/-- neither verifier has a reachable panic branch (the coordinate lengths are tested before they are collected) -/
theorem verifiers_never_panic (d : Disp) (alg : String) (k : KeyMat) (n : Nat) (c : Crypto) : dispatch d alg k n c ≠ .error .panic := by
  intro h
  unfold dispatch at h
  cases d with
  | ed =>
    simp only at h
    split at h
    · obtain ⟨g, hg, _, b⟩ := firstFail_err _ _ h
      simp only [List.mem_cons, List.not_mem_nil, or_false] at hg
      rcases hg with rfl | rfl | rfl | rfl | rfl | rfl <;> cases b
    · cases h
  | ec =>
    simp only at h
    split at h
    · obtain ⟨g, hg, a, b⟩ := firstFail_err _ _ h
      simp only [List.mem_cons, List.not_mem_nil, or_false, Gen.C01.ecCoordLen] at hg
      rcases hg with rfl | rfl | rfl | rfl | rfl | rfl | rfl | rfl <;> simp_all
    · cases h


/-- the library verifier `d` as the `V` of `verify`: what the key material `mat key` and the cryptography say -/
def libV (d : Disp) (mat : Key → KeyMat) (C : Key → Bytes → Bytes → Crypto) : String → Key → Bytes → Bytes → Bool :=
  fun a key msg sig => accepts d a (mat key) sig.length (C key msg sig)

/-- **verified through the library's verifier**: the dispatcher ran with the algorithm named in the PROTECTED header, over
exactly the received signing input and signature, and accepted -/
theorem verified_by_library_verifier (d : Disp) (mat : Key → KeyMat) (C : Key → Bytes → Bytes → Crypto)
    (it : Item) (key : Key) (p : Hdr) (u : Option Hdr) (c : Bytes)
    (h : verify (libV d mat C) it key = .ok (p, u, c)) :
    it.prot = some p ∧ ∃ a, p.alg = some a ∧
      dispatch d a (mat key) it.signature.length (C key it.signingInput it.signature) = .ok () := by
  obtain ⟨hp, _, _, a, ha, _, hv⟩ := verify_sound _ it key p u c h
  refine ⟨hp, a, ha, ?_⟩
  unfold libV accepts at hv
  split at hv
  · rename_i x hx; cases x; exact hx
  · cases hv

/-- with `EdDSAJwsVerifier`: the protected header says `EdDSA`, the key is an Ed25519 key, and Ed25519 accepted the received
bytes -/
theorem verified_eddsa (mat : Key → KeyMat) (C : Key → Bytes → Bytes → Crypto)
    (it : Item) (key : Key) (p : Hdr) (u : Option Hdr) (c : Bytes)
    (h : verify (libV .ed mat C) it key = .ok (p, u, c)) :
    p.alg = some "EdDSA" ∧ (mat key).kty = .okp ∧ (mat key).crv = "Ed25519" ∧ (mat key).xLen = some 32 ∧
    it.signature.length = 64 ∧ (C key it.signingInput it.signature).sigOk "Ed25519" = true := by
  obtain ⟨_, a, ha, hd⟩ := verified_by_library_verifier .ed mat C it key p u c h
  obtain ⟨h1, h2, h3, h4, h5, _, h7⟩ := ed_sound a _ _ _ hd
  exact ⟨h1 ▸ ha, h2, h3, h4, h5, h7⟩

/-- with `EcDSAJwsVerifier`: the curve whose scheme accepted is the one the PROTECTED header's algorithm names -/
theorem verified_ecdsa (mat : Key → KeyMat) (C : Key → Bytes → Bytes → Crypto)
    (it : Item) (key : Key) (p : Hdr) (u : Option Hdr) (c : Bytes)
    (h : verify (libV .ec mat C) it key = .ok (p, u, c)) :
    ∃ curve, ((p.alg = some "ES256" ∧ curve = "P-256") ∨ (p.alg = some "ES256K" ∧ curve = "secp256k1")) ∧
      (mat key).kty = .ec ∧ (mat key).xLen = some 32 ∧ (mat key).yLen = some 32 ∧ it.signature.length = 64 ∧
      (C key it.signingInput it.signature).sigOk curve = true := by
  obtain ⟨_, a, ha, hd⟩ := verified_by_library_verifier .ec mat C it key p u c h
  obtain ⟨cv, hc, h2, h3, h4, h5, _, h7⟩ := ec_sound a _ _ _ hd
  refine ⟨cv, ?_, h2, h3, h4, h5, h7⟩
  rcases hc with ⟨e, f⟩ | ⟨e, f⟩
  · exact Or.inl ⟨e ▸ ha, f⟩
  · exact Or.inr ⟨e ▸ ha, f⟩

example : accepts .ed "EdDSA" ⟨.okp, "Ed25519", some 32, none⟩ 64 ⟨fun _ => true, fun _ => true⟩ = true := by decide
example : accepts .ed "EdDSA" ⟨.okp, "X25519", some 32, none⟩ 64 ⟨fun _ => true, fun _ => true⟩ = false := by decide
example : accepts .ec "ES256K" ⟨.ec, "P-256", some 32, some 32⟩ 64 ⟨fun cv => cv == "P-256", fun cv => cv == "P-256"⟩ = false := by decide
example : accepts .ec "ES256" ⟨.ec, "secp256k1", some 32, some 32⟩ 64 ⟨fun cv => cv == "P-256", fun cv => cv == "P-256"⟩ = true := by decide

end LibraryVerifiers

end IdModel.Props.C01
