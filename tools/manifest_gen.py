#!/usr/bin/env python3
"""Regenerates MANIFEST.json from tools/manifest_data.py (kept valid at all times)."""
import json, os, sys
ROOT = os.path.dirname(os.path.dirname(os.path.abspath(__file__)))
sys.path.insert(0, os.path.join(ROOT, "tools"))
import manifest_data as D
ALL = ["C%02d" % i for i in range(1, 21)]
checks = []
for pid in ALL:
    if pid in D.CLAIMED:
        c = D.CLAIMED[pid]
        checks.append({
            "property_id": pid,
            "quick_cmd": "./check %s --tier quick" % pid,
            "thorough_cmd": "./check %s --tier thorough" % pid,
            "evidence_file": "evidence/%s.json" % pid,
            "replay_cmd_template": "./check %s --replay {path}" % pid,
            "engine": "lean4+correspondence",
            "level_claimed": {"category": "proof", "text": c["text"], "design_ref": c["design_ref"]},
            "level_note": c["note"],
            "technique": c["technique"],
        })
na = [{"property_id": p, "reason": D.NOT_YET.get(p, "check not built yet in this session; no claim is made")} for p in ALL if p not in D.CLAIMED]
m = {
    "version": 1,
    "setup_cmd": "./tools/setup.sh",
    "hooks": {"guard": "--cfg identity_rs_verif", "enable": "no hooks are used: every anchored function is driven through public API by the harness crate /verif/harness (path dependencies on /repo)", "baseline_off_cmd": "cd /repo && cargo test --workspace --no-fail-fast --offline", "source_commits": [], "add_only": True},
    "engines": [{"name": "lean4+correspondence", "path": "lean/ + harness/ + check", "serves_properties": sorted(D.CLAIMED), "kind_free_text": "Lean 4 theorems about hand-written + regenerated models; differential correspondence (Rust harness vs compiled Lean driver) on every run"}],
    "checks": checks,
    "notes": D.NOTES,
    "not_applicable": na,
}
json.dump(m, open(os.path.join(ROOT, "MANIFEST.json"), "w"), indent=1)
print("MANIFEST.json: %d claimed, %d unclaimed" % (len(checks), len(na)))
