import IdModel.KeyStore.Model
/-!
# C15 — shipped key stores honour the key-storage contract over every operation history

Property theorems only.  `IdModel.KeyStore.Model` transliterates `JwkMemStore::{generate, insert, sign, delete, exists}`
and `KeyIdMemstore::{insert_key_id, get_key_id, delete_key_id}`; the compatible (key type, algorithm) pairs, the
requirements of `insert`, and the fact that `insert_key_id` holds one write lock across check and insertion are
regenerated from the source (`IdModel.Gen.C15`).  The signature scheme is a parameter (`verifies`).
-/
namespace IdModel.Props.C15
open IdModel.KeyStore

/-- reachable stores: key ids were handed out by the counter and are pairwise distinct -/
structure Inv (s : Store) : Prop where
  bound : ∀ e ∈ s.keys, e.1 ≤ s.next
  nodup : (s.keys.map (·.1)).Nodup

theorem inv_empty : Inv ⟨[], 0⟩ := ⟨fun e h => (by cases h), List.nodup_nil⟩

theorem lookup_mem (s : Store) (id : Nat) (j : Jwk) (h : lookup s id = some j) : (id, j) ∈ s.keys := by
  unfold lookup at h
  cases hf : s.keys.find? (fun e => e.1 == id) with
  | none => rw [hf] at h; cases h
  | some e =>
    rw [hf] at h
    simp only [Option.map_some, Option.some.injEq] at h
    have hm := List.mem_of_find?_eq_some hf
    have hp : e.1 = id := by simpa using List.find?_some (p := fun e : Nat × Jwk => e.1 == id) hf
    have : e = (id, j) := by cases e; simp_all
    rw [← this]; exact hm

theorem lookup_none_of_gt (s : Store) (hi : Inv s) (id : Nat) (h : s.next < id) : lookup s id = none := by
  unfold lookup
  have : s.keys.find? (fun e => e.1 == id) = none := by
    rw [List.find?_eq_none]
    intro e he
    have := hi.bound e he
    simp only [beq_iff_eq]
    omega
  rw [this]; rfl

theorem append_inv (s : Store) (hi : Inv s) (j : Jwk) : Inv ⟨s.keys ++ [(s.next + 1, j)], s.next + 1⟩ := by
  constructor
  · intro e he
    rcases List.mem_append.1 he with h | h
    · have := hi.bound e h; simp only; omega
    · simp at h; rw [h]; simp
  · rw [List.map_append, List.nodup_append]
    refine ⟨hi.nodup, by simp, ?_⟩
    intro a ha b hb
    simp at hb
    subst hb
    obtain ⟨e, he, hea⟩ := List.mem_map.1 ha
    have := hi.bound e he
    omega

/-- every operation keeps the invariant, so it holds after every history -/
theorem step_inv (s : Store) (hi : Inv s) (op : Op) : Inv (step s op) := by
  cases op with
  | generate kt a =>
    simp only [step, generate]
    split
    · exact hi
    · split
      · exact hi
      · split
        · exact hi
        · exact append_inv s hi _
  | insert j =>
    simp only [step, KeyStore.insert]
    split
    · exact hi
    · split
      · exact hi
      · split
        · exact hi
        · exact append_inv s hi _
  | delete id =>
    simp only [step, delete]
    split
    · exact hi
    · constructor
      · intro e he
        exact hi.bound e (List.mem_filter.1 he).1
      · exact hi.nodup.sublist ((List.filter_sublist).map _)

theorem run_inv (ops : List Op) : ∀ s, Inv s → Inv (run s ops) := by
  induction ops with
  | nil => intro s h; exact h
  | cons op t ih => intro s h; unfold run; rw [List.foldl_cons]; exact ih _ (step_inv s h op)

/-- **generate**: a fresh key id; a public-only JWK whose kid is its thumbprint and whose alg is the requested one;
the private key is stored under that id; only Ed25519 with EdDSA is generated -/
theorem generate_spec (s : Store) (hi : Inv s) (kt : KType) (a : Alg) (o : GenOut)
    (h : (generate s kt a).2 = .ok o) :
    kt = .ed25519 ∧ a = .edDSA ∧ lookup s o.id = none ∧ o.isPublic = true ∧ o.kidIsThumbprint = true ∧ o.alg = a ∧
    ∃ j, lookup (generate s kt a).1 o.id = some j ∧ j.isPrivate = true ∧ j.secret = some o.pub ∧ j.pub = o.pub ∧
      j.alg = some (some a) := by
  unfold generate at h ⊢
  by_cases h1 : kt = .other
  · rw [if_pos h1] at h; cases h
  · rw [if_neg h1] at h ⊢
    by_cases h2 : (!compatible kt a) = true
    · rw [if_pos h2] at h; cases h
    · rw [if_neg h2] at h ⊢
      by_cases h3 : kt ≠ .ed25519
      · rw [if_pos h3] at h; cases h
      · rw [if_neg h3] at h ⊢
        have hk : kt = .ed25519 := by simpa using h3
        simp only at h
        injection h with h
        subst h
        have ha : a = .edDSA := by
          subst hk
          cases a with
          | edDSA => rfl
          | other n => simp [compatible, Gen.C15.compatible, ktName, algName] at h2
        refine ⟨hk, ha, lookup_none_of_gt s hi _ (by simp), rfl, rfl, rfl, ?_⟩
        simp only
        refine ⟨⟨.okpEd25519, true, some (some a), some (s.next + 1), s.next + 1⟩, ?_, rfl, rfl, rfl, rfl⟩
        unfold lookup
        rw [List.find?_append]
        have : s.keys.find? (fun e => e.1 == s.next + 1) = none := by
          rw [List.find?_eq_none]
          intro e he
          have := hi.bound e he
          simp only [beq_iff_eq]; omega
        rw [this]
        simp

/-- **insert requires a fully private JWK of a supported key type with a compatible alg** -/
theorem insert_spec (s : Store) (j : Jwk) (id : Nat) (h : (KeyStore.insert s j).2 = .ok id) :
    j.fam = .okpEd25519 ∧ j.isPrivate = true ∧ j.alg = some (some .edDSA) := by
  unfold KeyStore.insert at h
  cases hf : famType j.fam with
  | none => rw [hf] at h; cases h
  | some kt =>
    rw [hf] at h
    simp only [Gen.C15.insertRequiresPrivate, Gen.C15.insertRequiresAlg, Bool.true_and, Bool.not_true,
      Bool.false_eq_true, ↓reduceIte] at h
    by_cases hp : (!j.isPrivate) = true
    · rw [if_pos hp] at h; cases h
    · rw [if_neg hp] at h
      have hp' : j.isPrivate = true := by simpa using hp
      cases ha : j.alg with
      | none => rw [ha] at h; cases h
      | some x =>
        rw [ha] at h
        cases x with
        | none => cases h
        | some a =>
          simp only at h
          by_cases hc : compatible kt a = true
          · have : kt = .ed25519 ∧ a = .edDSA := by
              cases kt <;> cases a <;> simp [compatible, Gen.C15.compatible, ktName, algName] at hc ⊢
            obtain ⟨hk, hae⟩ := this
            subst hk; subst hae
            have hfam : j.fam = .okpEd25519 := by
              cases hh : j.fam <;> rw [hh] at hf <;> simp [famType] at hf ⊢
            exact ⟨hfam, hp', rfl⟩
          · rw [if_neg hc] at h; cases h

/-- **signatures made for a stored key id verify under that key's public JWK and under no other key** (the scheme
being what `verifies` says) -/
theorem sign_spec (s : Store) (id data : Nat) (pk : Jwk) (sg : Sig) (h : sign s id data pk = .ok sg) :
    ∃ j k, lookup s id = some j ∧ j.secret = some k ∧ sg = ⟨k, data⟩ ∧
      ∀ p d, verifies p d sg = true ↔ (p = k ∧ d = data) := by
  unfold sign at h
  cases ha : pk.alg with
  | none => rw [ha] at h; cases h
  | some x =>
    rw [ha] at h
    cases x with
    | none => cases h
    | some a =>
      cases a with
      | other n => cases h
      | edDSA =>
        simp only at h
        split at h
        · cases h
        · split at h
          · cases h
          · cases hl : lookup s id with
            | none => rw [hl] at h; cases h
            | some j =>
              rw [hl] at h
              simp only at h
              cases hs : j.secret with
              | none => rw [hs] at h; cases h
              | some k =>
                rw [hs] at h
                injection h with h
                subst h
                refine ⟨j, k, rfl, hs, rfl, ?_⟩
                intro p d
                simp only [verifies, Bool.and_eq_true, beq_iff_eq]
                constructor
                · rintro ⟨a, b⟩; exact ⟨a.symm, b.symm⟩
                · rintro ⟨a, b⟩; exact ⟨a.symm, b.symm⟩

/-- **a key id that is not stored neither signs, exists nor deletes** -/
theorem absent_id (s : Store) (id : Nat) (h : lookup s id = none) (data : Nat) (pk : Jwk) :
    (∀ sg, sign s id data pk ≠ .ok sg) ∧ «exists» s id = false ∧ (delete s id).2 = .error .keyNotFound ∧
    (delete s id).1 = s := by
  refine ⟨?_, by simp [«exists», h], by simp [delete, h], by simp [delete, h]⟩
  intro sg hs
  obtain ⟨j, _, hl, _⟩ := sign_spec s id data pk sg hs
  rw [h] at hl; cases hl

/-- never-issued ids are absent in every reachable store -/
theorem never_issued_absent (ops : List Op) (id : Nat) (h : (run ⟨[], 0⟩ ops).next < id) :
    lookup (run ⟨[], 0⟩ ops) id = none :=
  lookup_none_of_gt _ (run_inv ops _ inv_empty) id h

/-- **a deleted key id is gone, and stays gone**: ids are never handed out again -/
theorem deleted_absent (s : Store) (hi : Inv s) (id : Nat) : lookup (delete s id).1 id = none := by
  unfold delete
  cases hl : lookup s id with
  | none => simpa using hl
  | some j =>
    simp only
    unfold lookup
    have : (s.keys.filter (fun e => !(e.1 == id))).find? (fun e => e.1 == id) = none := by
      rw [List.find?_eq_none]
      intro e he
      have := (List.mem_filter.1 he).2
      simpa using this
    rw [this]; rfl

/-- deleting an absent id any number of times changes nothing and never succeeds -/
theorem deleteN_absent (s : Store) (id : Nat) (h : lookup s id = none) : ∀ n, deleteN s id n = (s, 0) := by
  intro n
  induction n with
  | zero => rfl
  | succ n ih =>
    have h1 : (delete s id).2 = .error .keyNotFound := by simp [delete, h]
    have h2 : (delete s id).1 = s := by simp [delete, h]
    unfold deleteN
    simp only [h1, h2, ih, Nat.add_zero]

/-- **a delete race**: of any number `n + 1` of simultaneous deletions of one key id exactly one succeeds when the key is
stored and none otherwise, and the key is gone afterwards (the store serialises them under its write lock) -/
theorem delete_race (s : Store) (hi : Inv s) (id n : Nat) :
    (deleteN s id (n + 1)).2 = (if (lookup s id).isSome then 1 else 0) ∧ lookup (deleteN s id (n + 1)).1 id = none := by
  cases hl : lookup s id with
  | none =>
    rw [deleteN_absent s id hl]
    exact ⟨by simp, hl⟩
  | some j =>
    have hgone := deleted_absent s hi id
    have hok : (delete s id).2 = .ok () := by simp [delete, hl]
    have hrest := deleteN_absent _ id hgone n
    unfold deleteN
    simp only [hrest, hok, Option.isSome_some, if_true, Nat.add_zero]
    exact ⟨trivial, hgone⟩

theorem step_keeps_absent (s : Store) (hi : Inv s) (id : Nat) (hle : id ≤ s.next) (h : lookup s id = none) (op : Op) :
    lookup (step s op) id = none ∧ id ≤ (step s op).next := by
  have app : ∀ j, lookup ⟨s.keys ++ [(s.next + 1, j)], s.next + 1⟩ id = none := by
    intro j
    unfold lookup at h ⊢
    rw [List.find?_append]
    cases hf : s.keys.find? (fun e => e.1 == id) with
    | some e => rw [hf] at h; cases h
    | none =>
      have : (s.next + 1 == id) = false := by simp; omega
      simp [this]
  cases op with
  | generate kt a =>
    simp only [step, generate]
    split
    · exact ⟨h, hle⟩
    · split
      · exact ⟨h, hle⟩
      · split
        · exact ⟨h, hle⟩
        · exact ⟨app _, by simp only; omega⟩
  | insert j =>
    simp only [step, KeyStore.insert]
    split
    · exact ⟨h, hle⟩
    · split
      · exact ⟨h, hle⟩
      · split
        · exact ⟨h, hle⟩
        · exact ⟨app _, by simp only; omega⟩
  | delete id' =>
    simp only [step, delete]
    split
    · exact ⟨h, hle⟩
    · refine ⟨?_, hle⟩
      unfold lookup at h ⊢
      cases hf : s.keys.find? (fun e => e.1 == id) with
      | some e => rw [hf] at h; cases h
      | none =>
        have : (s.keys.filter (fun e => !(e.1 == id'))).find? (fun e => e.1 == id) = none := by
          rw [List.find?_eq_none] at hf ⊢
          intro e he
          exact hf e (List.mem_filter.1 he).1
        rw [this]; rfl

theorem stays_absent (ops : List Op) : ∀ (s : Store), Inv s → ∀ id, id ≤ s.next → lookup s id = none →
    lookup (run s ops) id = none := by
  induction ops with
  | nil => intro s _ id _ h; exact h
  | cons op t ih =>
    intro s hi id hle h
    unfold run
    rw [List.foldl_cons]
    obtain ⟨a, b⟩ := step_keeps_absent s hi id hle h op
    exact ih _ (step_inv s hi op) id b a

/-! ## the key-id store -/

/-- **a second insert for a digest fails and leaves the first mapping intact** -/
theorem second_insert (m : KidStore) (d k1 k2 : Nat) (h : kidLookup m d = none) :
    let r1 := insertKid m d k1
    let r2 := insertKid r1.1 d k2
    r1.2 = .ok () ∧ r2.2 = .error .alreadyExists ∧ r2.1 = r1.1 ∧ getKid r2.1 d = .ok k1 := by
  have hl : kidLookup (m ++ [(d, k1)]) d = some k1 := by
    unfold kidLookup at h ⊢
    rw [List.find?_append]
    cases hf : m.find? (fun e => e.1 == d) with
    | some e => rw [hf] at h; cases h
    | none => simp
  simp only [insertKid, Gen.C15.keyIdInsertRefusesExisting, Bool.true_and, h, Option.isSome_none,
    Bool.false_eq_true, ↓reduceIte, hl, Option.isSome_some, getKid]
  trivial

theorem race_from_present (d : Nat) (ks : List Nat) : ∀ (m : KidStore) (k : Nat), kidLookup m d = some k →
    (race m d ks).1 = m ∧ ∀ r ∈ (race m d ks).2, r = .error .alreadyExists := by
  induction ks with
  | nil => intro m k _; exact ⟨rfl, fun r h => by cases h⟩
  | cons x t ih =>
    intro m k h
    have hi : insertKid m d x = (m, .error .alreadyExists) := by
      simp [insertKid, Gen.C15.keyIdInsertRefusesExisting, h]
    simp only [race, hi]
    obtain ⟨a, b⟩ := ih m k h
    refine ⟨a, ?_⟩
    intro r hr
    rcases List.mem_cons.1 hr with hr | hr
    · exact hr
    · exact b r hr

/-- **racing inserts of one digest**: in whatever order the threads obtain the lock, exactly the first succeeds, every
other fails, and the digest maps to the first one's key id -/
theorem race_spec (m : KidStore) (d k : Nat) (ks : List Nat) (h : kidLookup m d = none) :
    (race m d (k :: ks)).2.head? = some (.ok ()) ∧
    (∀ r ∈ (race m d (k :: ks)).2.tail, r = .error .alreadyExists) ∧
    getKid (race m d (k :: ks)).1 d = .ok k := by
  have hl : kidLookup (m ++ [(d, k)]) d = some k := by
    unfold kidLookup at h ⊢
    rw [List.find?_append]
    cases hf : m.find? (fun e => e.1 == d) with
    | some e => rw [hf] at h; cases h
    | none => simp
  have hi : insertKid m d k = (m ++ [(d, k)], .ok ()) := by
    simp [insertKid, Gen.C15.keyIdInsertRefusesExisting, h]
  obtain ⟨a, b⟩ := race_from_present d ks (m ++ [(d, k)]) k hl
  simp only [race, hi, List.head?_cons, List.tail_cons]
  refine ⟨trivial, b, ?_⟩
  rw [a]
  simp [getKid, hl]

/-- the lock is what makes this true: were check and insertion not under one lock, two inserts could both succeed -/
theorem unlocked_race_breaks : (raceUnlocked2 [] 7 1 2).2 = [.ok (), .ok ()] ∧
    (raceUnlocked2 [] 7 1 2).1 = [(7, 1), (7, 2)] := ⟨rfl, rfl⟩

theorem lock_is_held : Gen.C15.keyIdInsertAtomic = true := rfl

/-! ## the Stronghold-backed store -/

/-- **Stronghold `insert`** succeeds only for a fully private Ed25519 JWK with alg EdDSA whose secret key decodes, and then
does exactly what the in-memory store does -/
theorem insertS_spec (s : Store) (j : Jwk) (id : Nat) (h : (insertS s j).2 = .ok id) :
    j.fam = .okpEd25519 ∧ j.isPrivate = true ∧ j.alg = some (some .edDSA) ∧ j.secret.isSome = true ∧
      insertS s j = KeyStore.insert s j := by
  have c : ∀ k a, shCompatible k a = compatible k a := fun _ _ => rfl
  have facts : ∃ kt a, famType j.fam = some kt ∧ j.isPrivate = true ∧ j.alg = some (some a) ∧
      compatible kt a = true ∧ j.secret.isNone = false := by
    unfold insertS at h
    cases hf : famType j.fam with
    | none => rw [hf] at h; cases h
    | some kt =>
      rw [hf] at h
      simp only [Gen.C15.shInsertRequiresPrivate, Gen.C15.shInsertRequiresAlg, Gen.C15.shInsertExpandsSecret,
        Bool.true_and, Bool.not_true, Bool.false_eq_true, ↓reduceIte, c] at h
      by_cases hp : (!j.isPrivate) = true
      · rw [if_pos hp] at h; cases h
      · rw [if_neg hp] at h
        cases ha : j.alg with
        | none => rw [ha] at h; cases h
        | some x =>
          rw [ha] at h
          cases x with
          | none => cases h
          | some a =>
            simp only at h
            by_cases hc : compatible kt a = true
            · rw [if_pos hc] at h
              simp only at h
              by_cases hs : j.secret.isNone = true
              · rw [if_pos hs] at h; cases h
              · exact ⟨kt, a, rfl, by simpa using hp, rfl, hc, by cases hh : j.secret <;> simp_all⟩
            · rw [if_neg hc] at h; cases h
  obtain ⟨kt, a, hf, hp, ha, hc, hs⟩ := facts
  have e : insertS s j = KeyStore.insert s j := by
    unfold insertS KeyStore.insert
    simp [hf, hp, ha, hc, hs, c, Gen.C15.shInsertRequiresPrivate, Gen.C15.shInsertRequiresAlg,
      Gen.C15.shInsertExpandsSecret, Gen.C15.insertRequiresPrivate, Gen.C15.insertRequiresAlg]
  rw [e] at h
  obtain ⟨x, y, z⟩ := insert_spec s j id h
  refine ⟨x, y, z, ?_, e⟩
  cases hh : j.secret with
  | none => rw [hh] at hs; simp at hs
  | some _ => rfl

/-- **Stronghold `delete` of a key id that is not stored fails** (never issued or already deleted), and otherwise it is the
in-memory store's `delete`.  Needs the regenerated fact that `delete` tests existence first: the vault's own
`delete_secret` reports success for any record id once the vault exists. -/
theorem deleteS_eq_delete (s : Store) (id : Nat) : deleteS s id = delete s id := by
  unfold deleteS delete
  cases lookup s id with
  | some _ => rfl
  | none =>
    have : Gen.C15.shDeleteChecksExistence = true := rfl
    simp only [this, ↓reduceIte]

theorem deleteS_absent (s : Store) (id : Nat) (h : lookup s id = none) : (deleteS s id).2 = .error .keyNotFound := by
  rw [deleteS_eq_delete]; unfold delete; rw [h]

/-- **Stronghold `generate`** is the in-memory `generate` wherever it succeeds -/
theorem generateS_spec (s : Store) (hi : Inv s) (kt : KType) (a : Alg) (o : GenOut) (h : (generateS s kt a).2 = .ok o) :
    generateS s kt a = generate s kt a ∧ kt = .ed25519 ∧ a = .edDSA ∧ lookup s o.id = none ∧ o.isPublic = true ∧
      o.kidIsThumbprint = true ∧ o.alg = a := by
  have c : ∀ k b, shCompatible k b = compatible k b := fun _ _ => rfl
  have e : generateS s kt a = generate s kt a := by
    unfold generateS generate
    rw [c]
    by_cases h1 : kt = .other
    · rw [if_pos h1, if_pos h1]
    · rw [if_neg h1, if_neg h1]
      by_cases h2 : (!compatible kt a) = true
      · rw [if_pos h2, if_pos h2]
      · rw [if_neg h2, if_neg h2]
        by_cases h3 : kt ≠ .ed25519
        · exfalso
          unfold generateS at h
          rw [c, if_neg h1, if_neg h2, if_pos h3] at h
          cases h
        · rw [if_neg h3, if_neg h3]; rfl
  rw [e] at h
  obtain ⟨g1, g2, g3, g4, g5, g6, _⟩ := generate_spec s hi kt a o h
  exact ⟨e, g1, g2, g3, g4, g5, g6⟩

/-! ## non-vacuity -/

deriving instance DecidableEq for Except

def pk (a : Alg) : Jwk := ⟨.okpEd25519, false, some (some a), none, 1⟩

example : (generate ⟨[], 0⟩ .ed25519 .edDSA).2 = .ok ⟨1, 1, true, true, .edDSA⟩ := by decide
example : sign (generate ⟨[], 0⟩ .ed25519 .edDSA).1 1 42 (pk .edDSA) = .ok ⟨1, 42⟩ := by decide
example : sign (delete (generate ⟨[], 0⟩ .ed25519 .edDSA).1 1).1 1 42 (pk .edDSA) = .error .keyNotFound := by decide
example : (generate ⟨[], 0⟩ .bls .edDSA).2 = .error .keyAlgMismatch := by decide
example : (KeyStore.insert ⟨[], 0⟩ ⟨.okpEd25519, false, some (some .edDSA), none, 1⟩).2 = .error .notPrivate := by decide

end IdModel.Props.C15
