NOTES = "Technique family: machine-checked proof in Lean 4. Each check = theorems (lake build + #print axioms audit) + regenerated fragments + correspondence run against /repo's working tree. See DESIGN.md."
NOT_YET = {}
CLAIMED = {
    "C19": {
        "text": "Lean 4 theorems for every element/key type and every operation sequence: per-operation specs of append/prepend/update/replace/remove against the duplicate-free list, key-uniqueness invariant for every reachable state (induction over the op list), try_from accepts iff keys are distinct, from_iter keeps first occurrences, OneOrSet/OneOrMany shape and JSON round-trip theorems. The model is tied to the code by differential correspondence on exhaustive short and random long histories and on the full table of small JSON inputs.",
        "design_ref": "DESIGN.md §7.19",
        "note": "Trusted: Lean kernel (+propext, Classical.choice, Quot.sound), the correspondence harness, serde glue (validated by the JSON stream, not proved).",
        "technique": "Lean 4 proof (induction over operation lists) + model/implementation correspondence",
    },
    "C12": {
        "text": "Lean 4 theorems about a model whose bit masks, index split, size formula and bounds tests are REGENERATED from status_list.rs on every run: complete byte table (256 bytes x 8 written offsets x 8 read offsets x 2 values, decide +kernel) lifted to lists of any length: get-after-set, writes never disturb another entry, out-of-range = error (never panic), new() size/zero spec, read = last write over any write sequence (induction), one-way revocation over any set_entry history, suspension clearable, full characterisation of check_status_with_status_list_2021. Correspondence run drives the same table and random histories through the public API.",
        "design_ref": "DESIGN.md §7.12",
        "note": "Trusted: Lean kernel, translator (tools/translate.py), correspondence harness; gzip/base64 codec abstract (round trip exercised, not proved); serde/Url glue by correspondence.",
        "technique": "Lean 4 proof over regenerated model fragments (decide +kernel byte table + induction) + correspondence",
    },
    "C11": {
        "text": "Lean 4 theorem validate_iff: the model of validate_jws_headers (constant tables PREDEFINED / PERMITTED_CRITS / DEFAULT_B64 / JwtHeader::has / is_disjoint regenerated from the Rust source on every run) accepts a header pair IFF an independently written specification holds (crit only protected, non-empty, every entry implemented + non-registered + present; b64 only protected and listed in crit; parameter-name sets disjoint) — both directions, so each forbidden shape is rejected and nothing else is. Plus: general encoder/decoder accept only recipient lists with one effective b64 (induction over recipients), no-header rejection, verification gate needs protected alg. Tied to the code by the full decision table through all three encoders and all three decoder entry points.",
        "design_ref": "DESIGN.md §7.11",
        "note": "Trusted: Lean kernel, translator, correspondence harness; serde (de)serialisation of headers; theorem domain WF excludes a custom map naming alg/b64.",
        "technique": "Lean 4 proof (decision logic stated as iff against an independent spec, over regenerated tables) + correspondence",
    },
    "C13": {
        "text": "Lean 4 theorems: the proleptic Gregorian calendar model is a bijection between day numbers and valid civil dates (yearOf correct for every n by omega, complete month/day tables by decide +kernel); MIN/MAX are the calendar's own range ends; the year gate regenerated from from_unix is exactly [MIN, MAX]; parse never panics and accepts only instants in range; an accepted string denotes the instant of its fields at its offset (leap second as :59); formatting is total on the range, has the fixed 20-byte shape, and format-then-parse is the identity for EVERY instant in range; checked_add/sub = integer arithmetic, none exactly outside the range. The RFC 3339 parser of the time crate is transliterated; parse's offset normalisation and gates are regenerated from timestamp.rs. Correspondence drives boundary-dense and random strings/seconds/durations through the real Timestamp API.",
        "design_ref": "DESIGN.md §7.13",
        "note": "Trusted: Lean kernel, translator, correspondence harness; the `time` crate is modelled (parser transliterated, calendar re-derived), not verified; Ord and serde by correspondence.",
        "technique": "Lean 4 proof (omega + complete finite tables + byte-level round trip) over regenerated gates + correspondence",
    },
    "C10": {
        "text": "Lean 4 theorems about a byte-level transliteration of the third-party parser (with its defects) + the identity_did wrappers, character classes regenerated from BOTH sources: the guarded parser call never panics for ANY input (the guard's scan is proved to mirror the parser's method-id scan); every accepted plain DID is verbatim, recomposes as did:<method>:<id>, satisfies the W3C character/percent-triple syntax per component (stated against an independent inductive grammar) and contains no '/', '?', '#'; every DID URL value produced by parse / join / setters has well-formed components; DIDUrl::parse and join are total; Eq <-> Ord = Equal and Eq -> equal hash input. Re-parse of joined / edited values and verbatim string form of DID URLs are tied by correspondence (exhaustive short strings over an adversarial alphabet); 4 residual classes are recorded as known findings.",
        "design_ref": "DESIGN.md §7.10",
        "note": "Trusted: Lean kernel, translator, correspondence harness; did_url_parser is modelled (transliterated) not verified; its buffer setters are modelled at component level; serde glue.",
        "technique": "Lean 4 proof (induction over scanning loops, grammar equivalence) over regenerated character classes + correspondence",
    },
    "C17": {
        "text": "Lean 4 theorems on top of the C10 DID model, constants regenerated from iota_did.rs / network_name.rs: every accepted IOTA DID has method iota, a network name of 1..MAX_LENGTH lowercase alphanumerics, a tag that decodes to exactly 32 bytes, is in normal form (default network omitted), recomposes as did:iota:[net:]tag, contains no '/', '?', '#'; parse never panics (the expect in normalize is unreachable); two accepted DIDs are equal iff networks and tags are equal, and (lower-case input) tags are equal iff tag bytes are; IotaDID::new never panics for a valid network name and exposes exactly the given 32 bytes and name (uses a completeness theorem for the DID parser: did:<[a-z0-9]+>:<id chars> is accepted verbatim). Hex encode/decode round trip and lower-case injectivity proved.",
        "design_ref": "DESIGN.md §7.17",
        "note": "Trusted: Lean kernel, translator, correspondence harness; Unicode lower-casing done by the harness (std) and checked against the implementation; prefix-hex/hex modelled; C10 trusted base.",
        "technique": "Lean 4 proof (shape + completeness of the parser on the constructor's output) over regenerated constants + correspondence",
    },
    "C01": {
        "text": "Lean 4 theorems about the decoder / verify model (header parser P and signature scheme V are parameters; header policy from C11 over regenerated tables; base64url proved a canonical bijection): every accepted compact token is s0.s1.s2 with dot-free segments, exactly one payload source, signing input = received protected segment ++ '.' ++ received payload, signature = base64url-decode of the received segment, claims = the payload (decoded unless b64=false), protected header = P(decode s0); the same for each signature of the JSON forms at member level; verify reports success only after V succeeded on exactly those bytes with alg from the protected header and the key's pinned alg (if any) equal; no alg in the protected header => never verified; the map token -> (message, signature) is injective on accepted tokens, so every accepted modification reaches the verifier differently. Tied to the code by a recording verifier that captures the bytes the real decoder hands over.",
        "design_ref": "DESIGN.md §7.1",
        "note": "Trusted: Lean kernel, translator (C11 tables), correspondence harness; serde header parsing as a table computed by the library; signature schemes unproved (parameter V); JSON envelope by correspondence.",
        "technique": "Lean 4 proof (shape + injectivity, base64url bijection) + correspondence with a recording verifier",
    },
    "C06": {
        "text": "Lean 4 theorems (legacy-detection prefixes, data-URL prefix and type name regenerated from bitmap.rs; roaring+zlib an abstract codec with the two stated hypotheses): an encoded bitmap decodes back to the same set through the endpoint and through the typed service (base64url proved a canonical bijection; every stream starting 78 9C encodes to text the regenerated detection treats as new format); the legacy form Base64(Base64Url(zlib)) still decodes; revoke/unrevoke batches change membership of exactly the listed indices (any batch sequence, by induction; untouched indices keep their status); an update through the service re-encodes to something that decodes to the updated set; check_status reports revoked IFF (not SkipAll, bitmap type, index property = every index query, issuer found, id is a DID URL, service decodes, index is a member).",
        "design_ref": "DESIGN.md §7.6",
        "note": "Trusted: Lean kernel, translator, correspondence harness; roaring/flate2 assumed (hypotheses exercised on every run); Url/serde glue by correspondence.",
        "technique": "Lean 4 proof over regenerated constants (abstract codec hypotheses) + correspondence with codec fact tables",
    },
    "C08": {
        "text": "Lean 4 theorems about the encoder + decoder models (headers policy from C11 over regenerated tables, base64url proved a bijection; S/P header codec a stated hypothesis): core lemma — a signature entry assembled by the encoders decodes to exactly (protected header, unprotected header, signing input, signature, payload); compact round trip for every accepted header, every NON-EMPTY payload, every option (detached / attached b64 / attached unencoded under either character set — the character sets are proved dot-free) and every signature; flattened round trip at member level; encoders accept exactly the header sets the shared policy accepts. General serialization, the JSON envelope and the storage-backed signing path (all JwsSignatureOptions, scopes, nonces, cross-method/cross-document rejection with real Ed25519) are tied by correspondence / implementation-side oracle.",
        "design_ref": "DESIGN.md §7.8",
        "note": "Trusted: Lean kernel, translator (C11 tables), correspondence harness; serde header codec as hypothesis (exercised on every generated header); JSON envelope and storage path by correspondence / oracle; Ed25519 unproved.",
        "technique": "Lean 4 proof (encode/decode round trip, base64url bijection) + correspondence + implementation-side oracle for the storage path",
    },
    "C18": {
        "text": "Lean 4 theorems over member lists REGENERATED from key_params.rs / key.rs / key_operation.rs (struct fields, to_public cleared/kept lists, is_public / is_private test lists, invert table, thumbprint member lists, untagged variant order, the two behaviour flags): closed table facts tie the regenerated lists to an independently written RFC 7518 private/public member specification; a key is public iff it has no private member; the public projection has no private member, keeps the public parameters and the type, is public and is idempotent; the thumbprint hash input is a function of the declared type and the required public members only; declared type = parameter family for every constructor, setter, projection and for deserialisation; the verification-method constructor refuses private material. Tied to the code by every private-member subset x declared type x member permutation.",
        "design_ref": "DESIGN.md §7.18",
        "note": "Trusted: Lean kernel, translator, correspondence harness; serde glue modelled and tied by correspondence; SHA-256 not modelled (hash input only).",
        "technique": "Lean 4 proof over regenerated member tables (closed table facts + general lemmas) + correspondence",
    },
}
