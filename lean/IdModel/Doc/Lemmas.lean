import IdModel.Doc.Gate
import IdModel.OSet.Lemmas
import IdModel.Props.C19
/-! Invariant of the document model and its preservation by every checked mutator (C04). -/
namespace IdModel.Doc
open IdModel.OSet

/-! ### getRel / setRel -/

@[simp] theorem getRel_setRel_same (d : Doc) (r : Rel) (l : List MRef) : (d.setRel r l).getRel r = l := by
  cases r <;> rfl

theorem getRel_setRel_ne (d : Doc) (r r' : Rel) (l : List MRef) (h : r' ≠ r) :
    (d.setRel r l).getRel r' = d.getRel r' := by
  cases r <;> cases r' <;> first | rfl | exact absurd rfl h

theorem getRel_setRel (d : Doc) (r r' : Rel) (l : List MRef) :
    (d.setRel r l).getRel r' = if r' = r then l else d.getRel r' := by
  by_cases h : r' = r
  · subst h; simp
  · rw [if_neg h]; exact getRel_setRel_ne d r r' l h

@[simp] theorem setRel_vm (d : Doc) (r : Rel) (l : List MRef) : (d.setRel r l).vm = d.vm := by
  cases r <;> rfl

@[simp] theorem setRel_service (d : Doc) (r : Rel) (l : List MRef) : (d.setRel r l).service = d.service := by
  cases r <;> rfl

@[simp] theorem setRel_id (d : Doc) (r : Rel) (l : List MRef) : (d.setRel r l).id = d.id := by
  cases r <;> rfl

theorem setRel_getRel (d : Doc) (r : Rel) : d.setRel r (d.getRel r) = d := by
  cases r <;> rfl

/-! ### the regenerated orders cover every relationship exactly once -/

theorem mem_checkOrder (r : Rel) : r ∈ relList Gen.C04.checkOrder := by cases r <;> decide
theorem nodup_checkOrder : (relList Gen.C04.checkOrder).Nodup := by decide
theorem mem_resolveOrder (r : Rel) : r ∈ relList Gen.C04.resolveOrder := by cases r <;> decide
theorem mem_removeOrder (r : Rel) : r ∈ relList Gen.C04.removeOrder := by cases r <;> decide
theorem mem_allMethodsOrder (r : Rel) : r ∈ relList Gen.C04.allMethodsOrder := by cases r <;> decide
theorem mem_relationshipsOrder (r : Rel) : r ∈ relList Gen.C04.relationshipsOrder := by cases r <;> decide

theorem mem_relationships (d : Doc) (e : MRef) : e ∈ relationships d ↔ ∃ r, e ∈ d.getRel r := by
  unfold relationships
  rw [List.mem_flatMap]
  constructor
  · rintro ⟨r, _, h⟩; exact ⟨r, h⟩
  · rintro ⟨r, h⟩; exact ⟨r, mem_relationshipsOrder r, h⟩

theorem mem_allMethods (d : Doc) (m : Method) :
    m ∈ allMethods d ↔ (m ∈ d.vm ∨ ∃ r, MRef.embed m ∈ d.getRel r) := by
  unfold allMethods
  rw [List.mem_append, List.mem_flatMap]
  constructor
  · rintro (h | ⟨r, _, h⟩)
    · exact Or.inl h
    · rw [List.mem_filterMap] at h
      obtain ⟨e, he, hm⟩ := h
      cases e with
      | embed m' => simp only [MRef.embedded?, Option.some.injEq] at hm; subst hm; exact Or.inr ⟨r, he⟩
      | refer i => cases hm
  · rintro (h | ⟨r, h⟩)
    · exact Or.inl h
    · exact Or.inr ⟨r, mem_allMethodsOrder r, List.mem_filterMap.2 ⟨_, h, rfl⟩⟩

/-! ### the invariant, stated on the contents (not on the code's check) -/

structure Inv (d : Doc) : Prop where
  /-- each collection is an ordered *set* -/
  uVm : Uniq Method.id d.vm
  uRel : ∀ r, Uniq MRef.id (d.getRel r)
  uSvc : Uniq Service.id d.service
  /-- an embedded method's id occurs in no entry of another relationship (neither embedded nor reference) -/
  cross : ∀ r r', r ≠ r' → ∀ e ∈ d.getRel r, ∀ e' ∈ d.getRel r', RR e e'
  /-- no general-purpose method shares its id with an embedded method -/
  vmEmb : ∀ v ∈ d.vm, ∀ r, ∀ e ∈ d.getRel r, e.isEmbed = true → e.id ≠ v.id
  /-- no service id equals a method id or reference -/
  svcRel : ∀ s ∈ d.service, ∀ r, ∀ e ∈ d.getRel r, e.id ≠ s.id
  svcVm : ∀ s ∈ d.service, ∀ v ∈ d.vm, v.id ≠ s.id

theorem RR_symm {a b : MRef} (h : RR a b) : RR b a := fun hid => (h hid.symm).symm

theorem pairwise_symm_ne {α : Type} {S : α → α → Prop} (hs : ∀ a b, S a b → S b a) :
    ∀ (l : List α), l.Pairwise S → ∀ a ∈ l, ∀ b ∈ l, a ≠ b → S a b := by
  intro l
  induction l with
  | nil => intro _ a ha; cases ha
  | cons x t ih =>
    intro hp a ha b hb hab
    rw [List.pairwise_cons] at hp
    rcases List.mem_cons.1 ha with ha | ha <;> rcases List.mem_cons.1 hb with hb | hb
    · exact absurd (ha.trans hb.symm) hab
    · rw [ha]; exact hp.1 b hb
    · rw [hb]; exact hs _ _ (hp.1 a ha)
    · exact ih hp.2 a ha b hb hab

theorem uniq_pairwise_RR (l : List MRef) (h : Uniq MRef.id l) : l.Pairwise RR := by
  unfold Uniq List.Nodup at h
  rw [List.pairwise_map] at h
  exact h.imp (fun hne hid => absurd hid hne)

/-- under set-uniqueness, the code's check decides exactly the stated conditions -/
theorem check_iff (d : Doc) (hu : ∀ r, Uniq MRef.id (d.getRel r)) :
    checkIdConstraints d = true ↔
      ((∀ r r', r ≠ r' → ∀ e ∈ d.getRel r, ∀ e' ∈ d.getRel r', RR e e') ∧
       (∀ v ∈ d.vm, ∀ r, ∀ e ∈ d.getRel r, e.isEmbed = true → e.id ≠ v.id) ∧
       (∀ s ∈ d.service, ∀ r, ∀ e ∈ d.getRel r, e.id ≠ s.id) ∧
       (∀ s ∈ d.service, ∀ v ∈ d.vm, v.id ≠ s.id)) := by
  rw [checkIdConstraints_eq, gate_iff]
  unfold GateSem
  have hmem : ∀ e, e ∈ (relList Gen.C04.checkOrder).flatMap d.getRel ↔ ∃ r, e ∈ d.getRel r := by
    intro e
    rw [List.mem_flatMap]
    constructor
    · rintro ⟨r, _, h⟩; exact ⟨r, h⟩
    · rintro ⟨r, h⟩; exact ⟨r, mem_checkOrder r, h⟩
  rw [List.pairwise_flatMap]
  constructor
  · rintro ⟨⟨_, p2⟩, hv, hs⟩
    refine ⟨?_, ?_, ?_, ?_⟩
    · intro r r' hne
      exact pairwise_symm_ne (S := fun a b => ∀ x ∈ d.getRel a, ∀ y ∈ d.getRel b, RR x y)
        (fun a b h x hx y hy => RR_symm (h y hy x hx)) _ p2 r (mem_checkOrder r) r' (mem_checkOrder r') hne
    · intro v hv' r e he; exact hv v hv' e ((hmem e).2 ⟨r, he⟩)
    · intro s hs' r e he; exact (hs s hs').1 e ((hmem e).2 ⟨r, he⟩)
    · intro s hs'; exact (hs s hs').2
  · rintro ⟨hc, hv, hsr, hsv⟩
    refine ⟨⟨fun r _ => uniq_pairwise_RR _ (hu r), ?_⟩, ?_, ?_⟩
    · exact (nodup_checkOrder).imp (fun {a b} hne => hc a b hne)
    · intro v hv' e he
      obtain ⟨r, hr⟩ := (hmem e).1 he
      exact hv v hv' r e hr
    · intro s hs'
      refine ⟨?_, hsv s hs'⟩
      intro e he
      obtain ⟨r, hr⟩ := (hmem e).1 he
      exact hsr s hs' r e hr

theorem inv_check (d : Doc) (h : Inv d) : checkIdConstraints d = true :=
  (check_iff d h.uRel).2 ⟨h.cross, h.vmEmb, h.svcRel, h.svcVm⟩

/-- the deserialisation gate accepts exactly the vectors that already satisfy the invariant -/
theorem fromData_iff (x : Data) (d : Doc) : fromData x = some d ↔ (d.toData = x ∧ Inv d) := by
  unfold fromData
  constructor
  · intro h
    cases h1 : tryFromVec Method.id x.vm with
    | none => rw [h1] at h; cases h
    | some vm =>
    cases h2 : tryFromVec MRef.id x.auth with
    | none => rw [h1, h2] at h; cases h
    | some a =>
    cases h3 : tryFromVec MRef.id x.asrt with
    | none => rw [h1, h2, h3] at h; cases h
    | some b =>
    cases h4 : tryFromVec MRef.id x.keyAgr with
    | none => rw [h1, h2, h3, h4] at h; cases h
    | some c =>
    cases h5 : tryFromVec MRef.id x.capDel with
    | none => rw [h1, h2, h3, h4, h5] at h; cases h
    | some e =>
    cases h6 : tryFromVec MRef.id x.capInv with
    | none => rw [h1, h2, h3, h4, h5, h6] at h; cases h
    | some f =>
    cases h7 : tryFromVec Service.id x.service with
    | none => rw [h1, h2, h3, h4, h5, h6, h7] at h; cases h
    | some s =>
      rw [h1, h2, h3, h4, h5, h6, h7] at h
      simp only at h
      split at h
      · rename_i hchk
        injection h with h
        obtain ⟨n1, e1⟩ := (Props.C19.tryFromVec_iff_nodup Method.id _ _).1 h1
        obtain ⟨n2, e2⟩ := (Props.C19.tryFromVec_iff_nodup MRef.id _ _).1 h2
        obtain ⟨n3, e3⟩ := (Props.C19.tryFromVec_iff_nodup MRef.id _ _).1 h3
        obtain ⟨n4, e4⟩ := (Props.C19.tryFromVec_iff_nodup MRef.id _ _).1 h4
        obtain ⟨n5, e5⟩ := (Props.C19.tryFromVec_iff_nodup MRef.id _ _).1 h5
        obtain ⟨n6, e6⟩ := (Props.C19.tryFromVec_iff_nodup MRef.id _ _).1 h6
        obtain ⟨n7, e7⟩ := (Props.C19.tryFromVec_iff_nodup Service.id _ _).1 h7
        subst e1 e2 e3 e4 e5 e6 e7
        subst h
        have hu : ∀ r, Uniq MRef.id (Doc.getRel ⟨x.id, x.vm, x.auth, x.asrt, x.keyAgr, x.capDel, x.capInv, x.service⟩ r) := by
          intro r; cases r <;> assumption
        obtain ⟨c1, c2, c3, c4⟩ := (check_iff _ hu).1 hchk
        exact ⟨rfl, ⟨n1, hu, n7, c1, c2, c3, c4⟩⟩
      · cases h
  · rintro ⟨hx, hinv⟩
    subst hx
    have t1 := (Props.C19.tryFromVec_iff_nodup Method.id d.vm d.vm).2 ⟨hinv.uVm, rfl⟩
    have t2 := (Props.C19.tryFromVec_iff_nodup MRef.id d.auth d.auth).2 ⟨hinv.uRel .auth, rfl⟩
    have t3 := (Props.C19.tryFromVec_iff_nodup MRef.id d.asrt d.asrt).2 ⟨hinv.uRel .asrt, rfl⟩
    have t4 := (Props.C19.tryFromVec_iff_nodup MRef.id d.keyAgr d.keyAgr).2 ⟨hinv.uRel .keyAgr, rfl⟩
    have t5 := (Props.C19.tryFromVec_iff_nodup MRef.id d.capDel d.capDel).2 ⟨hinv.uRel .capDel, rfl⟩
    have t6 := (Props.C19.tryFromVec_iff_nodup MRef.id d.capInv d.capInv).2 ⟨hinv.uRel .capInv, rfl⟩
    have t7 := (Props.C19.tryFromVec_iff_nodup Service.id d.service d.service).2 ⟨hinv.uSvc, rfl⟩
    simp only [Doc.toData]
    rw [t1, t2, t3, t4, t5, t6, t7]
    simp only
    have hc : checkIdConstraints ⟨d.toData.id, d.vm, d.auth, d.asrt, d.keyAgr, d.capDel, d.capInv, d.service⟩ = true :=
      inv_check d hinv
    exact (if_pos hc).trans rfl

/-! ### removal only ever shrinks a document -/

structure Sub (d' d : Doc) : Prop where
  vm : d'.vm.Sublist d.vm
  rel : ∀ r, (d'.getRel r).Sublist (d.getRel r)
  svc : d'.service.Sublist d.service

theorem Sub.refl (d : Doc) : Sub d d := ⟨List.Sublist.refl _, fun _ => List.Sublist.refl _, List.Sublist.refl _⟩

theorem Sub.trans {a b c : Doc} (h1 : Sub a b) (h2 : Sub b c) : Sub a c :=
  ⟨h1.vm.trans h2.vm, fun r => (h1.rel r).trans (h2.rel r), h1.svc.trans h2.svc⟩

theorem inv_of_sub {d' d : Doc} (h : Sub d' d) (hi : Inv d) : Inv d' where
  uVm := hi.uVm.sublist (h.vm.map _)
  uRel := fun r => (hi.uRel r).sublist ((h.rel r).map _)
  uSvc := hi.uSvc.sublist (h.svc.map _)
  cross := fun r r' hne e he e' he' => hi.cross r r' hne e ((h.rel r).subset he) e' ((h.rel r').subset he')
  vmEmb := fun v hv r e he => hi.vmEmb v (h.vm.subset hv) r e ((h.rel r).subset he)
  svcRel := fun s hs r e he => hi.svcRel s (h.svc.subset hs) r e ((h.rel r).subset he)
  svcVm := fun s hs v hv => hi.svcVm s (h.svc.subset hs) v (h.vm.subset hv)

theorem remove_sublist {α κ : Type} [DecidableEq κ] (key : α → κ) (s : List α) (k : κ) :
    (remove key s k).1.Sublist s := by
  induction s with
  | nil => exact List.Sublist.refl _
  | cons y ys ih =>
    unfold remove
    by_cases h : key y = k
    · rw [if_pos h]; exact List.sublist_cons_self y ys
    · rw [if_neg h]; exact ih.cons₂ y

theorem sub_setRel (d : Doc) (r : Rel) (l : List MRef) (h : l.Sublist (d.getRel r)) : Sub (d.setRel r l) d := by
  refine ⟨by simp, ?_, by simp⟩
  intro r'
  rw [getRel_setRel]
  split
  · rename_i hr; subst hr; exact h
  · exact List.Sublist.refl _

theorem removeRels_fst (d : Doc) (k : Id) (r : Rel) (rs : List Rel) :
    (removeRels d k (r :: rs)).1 = (removeRels (d.setRel r (remove MRef.id (d.getRel r) k).1) k rs).1 := by
  rw [removeRels]
  split <;> rfl

theorem removeRels_sub (k : Id) (L : List Rel) : ∀ d : Doc, Sub (removeRels d k L).1 d := by
  induction L with
  | nil => intro d; exact Sub.refl d
  | cons r rs ih =>
    intro d
    rw [removeRels_fst]
    exact (ih _).trans (sub_setRel d r _ (remove_sublist _ _ _))

theorem removeMethod_sub (d : Doc) (k : Id) : Sub (removeMethod d k).1 d := by
  unfold removeMethod
  simp only
  have h := removeRels_sub k (relList Gen.C04.removeOrder) d
  split
  · exact h
  · have h2 : Sub ({ (removeRels d k (relList Gen.C04.removeOrder)).1 with
        vm := (remove Method.id (removeRels d k (relList Gen.C04.removeOrder)).1.vm k).1 } : Doc)
        (removeRels d k (relList Gen.C04.removeOrder)).1 :=
      ⟨remove_sublist _ _ _, fun r => by cases r <;> exact List.Sublist.refl _, List.Sublist.refl _⟩
    exact h2.trans h

theorem removeService_sub (d : Doc) (k : Id) : Sub (removeService d k).1 d :=
  ⟨List.Sublist.refl _, fun _ => List.Sublist.refl _, remove_sublist _ _ _⟩

theorem detach_sub (d : Doc) (q : Query) (r : Rel) : Sub (detach d q r).1 d := by
  unfold detach
  split
  · split <;> exact Sub.refl d
  · exact sub_setRel d r _ (remove_sublist _ _ _)

/-! ### insertion -/

theorem mem_append_fst {α κ : Type} [DecidableEq κ] (key : α → κ) (s : List α) (x y : α)
    (h : y ∈ (append key s x).1) : y ∈ s ∨ y = x := by
  unfold append at h
  split at h
  · exact Or.inl h
  · simpa using h

theorem matches_ofId_self (i : Id) (h : i.frag ≠ none) : (Query.ofId i).matches i = true := by
  unfold Query.matches Query.ofId
  cases hf : i.frag with
  | none => exact absurd hf h
  | some f => simp

theorem query_none {α : Type} (key : α → Id) (s : List α) (q : Query) (h : query key s q = none) :
    ∀ e ∈ s, q.matches (key e) = false := by
  unfold query at h
  rw [List.find?_eq_none] at h
  intro e he
  simpa using h e he

theorem query_some_mem {α : Type} (key : α → Id) (s : List α) (q : Query) (e : α) (h : query key s q = some e) :
    e ∈ s ∧ q.matches (key e) = true := by
  unfold query at h
  exact ⟨List.mem_of_find?_eq_some h, by simpa using List.find?_some h⟩

theorem insertMethod_inv (d : Doc) (m : Method) (s : Scope) (hi : Inv d) (hf : m.id.frag ≠ none) :
    Inv (insertMethod d m s).1 := by
  unfold insertMethod insertMethodG
  cases hg : insertRefusedG Gen.C04.insertChecksResolve Gen.C04.insertChecksService
      Gen.C04.insertChecksEmbeddedIds Gen.C04.insertChecksRelationshipIds d m s with
  | true => simpa using hi
  | false =>
    simp only [Bool.false_eq_true, ↓reduceIte]
    unfold insertRefusedG at hg
    simp only [Gen.C04.insertChecksResolve, Gen.C04.insertChecksService, Gen.C04.insertChecksEmbeddedIds,
      Gen.C04.insertChecksRelationshipIds, Bool.true_and, Bool.or_eq_false_iff] at hg
    obtain ⟨⟨⟨_, g2⟩, g3⟩, g4⟩ := hg
    have hsvc : ∀ sv ∈ d.service, sv.id ≠ m.id := by
      intro sv hsv heq
      have hq : query Service.id d.service (Query.ofId m.id) = none := by
        cases hh : query Service.id d.service (Query.ofId m.id) with
        | none => rfl
        | some _ => rw [hh] at g2; cases g2
      have := query_none _ _ _ hq sv hsv
      rw [heq, matches_ofId_self _ hf] at this
      cases this
    have hall : ∀ x ∈ allMethods d, x.id ≠ m.id := by
      intro x hx heq
      rw [List.any_eq_false] at g3
      exact g3 x hx (by simp [heq])
    cases s with
    | vm =>
      simp only
      refine ⟨append_inv _ _ _ hi.uVm, hi.uRel, hi.uSvc, hi.cross, ?_, hi.svcRel, ?_⟩
      · intro v hv r e he hemb
        rcases mem_append_fst _ _ _ _ hv with hv | hv
        · exact hi.vmEmb v hv r e he hemb
        · subst hv
          cases e with
          | refer i => cases hemb
          | embed x => exact hall x ((mem_allMethods d x).2 (Or.inr ⟨r, he⟩))
      · intro sv hsv v hv
        rcases mem_append_fst _ _ _ _ hv with hv | hv
        · exact hi.svcVm sv hsv v hv
        · subst hv; exact fun h => hsvc sv hsv h.symm
    | rel r =>
      simp only
      have hrel : ∀ r', ∀ e ∈ d.getRel r', e.id ≠ m.id := by
        intro r' e he heq
        have hne : (Scope.rel r != Scope.vm) = true := by cases r <;> rfl
        rw [hne, Bool.true_and, List.any_eq_false] at g4
        exact g4 e ((mem_relationships d e).2 ⟨r', he⟩) (by simp [heq])
      have hmem : ∀ r', ∀ e ∈ (d.setRel r (append MRef.id (d.getRel r) (.embed m)).1).getRel r',
          e ∈ d.getRel r' ∨ (r' = r ∧ e = .embed m) := by
        intro r' e he
        rw [getRel_setRel] at he
        split at he
        · rename_i hr
          rcases mem_append_fst _ _ _ _ he with he | he
          · left; rw [hr]; exact he
          · right; exact ⟨hr, he⟩
        · left; exact he
      refine ⟨by simpa using hi.uVm, ?_, by simpa using hi.uSvc, ?_, ?_, ?_, by simpa using hi.svcVm⟩
      · intro r'
        rw [getRel_setRel]
        split
        · exact append_inv _ _ _ (hi.uRel r)
        · exact hi.uRel r'
      · intro r1 r2 hne e1 he1 e2 he2
        rcases hmem r1 e1 he1 with h1 | ⟨_, h1⟩ <;> rcases hmem r2 e2 he2 with h2 | ⟨_, h2⟩
        · exact hi.cross r1 r2 hne e1 h1 e2 h2
        · subst h2; intro hid; exact absurd hid (hrel r1 e1 h1)
        · subst h1; intro hid; exact absurd hid.symm (hrel r2 e2 h2)
        · subst h1; subst h2; rename_i a b; exact absurd (a.trans b.symm) hne
      · intro v hv r' e he hemb
        rw [setRel_vm] at hv
        rcases hmem r' e he with h1 | ⟨_, h1⟩
        · exact hi.vmEmb v hv r' e h1 hemb
        · subst h1; exact fun h => hall v ((mem_allMethods d v).2 (Or.inl hv)) h.symm
      · intro sv hsv r' e he
        rw [setRel_service] at hsv
        rcases hmem r' e he with h1 | ⟨_, h1⟩
        · exact hi.svcRel sv hsv r' e h1
        · subst h1; exact fun h => hsvc sv hsv h.symm

theorem insertService_inv (d : Doc) (s : Service) (hi : Inv d) : Inv (insertService d s).1 := by
  unfold insertService
  simp only [Gen.C04.insertServiceChecksMethodIds, Bool.true_and]
  split
  · exact hi
  · rename_i hex
    simp only [Bool.or_eq_true, not_or, Bool.not_eq_true] at hex
    obtain ⟨h1, h2⟩ := hex
    rw [List.any_eq_false] at h1 h2
    split
    · refine ⟨hi.uVm, hi.uRel, append_inv _ _ _ hi.uSvc, hi.cross, hi.vmEmb, ?_, ?_⟩
      · intro sv hsv r e he
        rcases mem_append_fst _ _ _ _ hsv with hsv | hsv
        · exact hi.svcRel sv hsv r e he
        · subst hsv; intro heq; exact h1 e ((mem_relationships d e).2 ⟨r, he⟩) (by simp [heq])
      · intro sv hsv v hv
        rcases mem_append_fst _ _ _ _ hsv with hsv | hsv
        · exact hi.svcVm sv hsv v hv
        · subst hsv; intro heq; exact h2 v hv (by simp [heq])
    · exact hi

theorem attach_inv (d : Doc) (q : Query) (r : Rel) (hi : Inv d) : Inv (attach d q r).1 := by
  unfold attach
  split
  · split <;> exact hi
  · rename_i m hm
    simp only
    have hmv : m ∈ d.vm := by
      simp only [resolveMethod] at hm
      exact (query_some_mem _ _ _ _ hm).1
    have hmem : ∀ r', ∀ e ∈ (d.setRel r (append MRef.id (d.getRel r) (.refer m.id)).1).getRel r',
        e ∈ d.getRel r' ∨ (r' = r ∧ e = .refer m.id) := by
      intro r' e he
      rw [getRel_setRel] at he
      split at he
      · rename_i hr
        rcases mem_append_fst _ _ _ _ he with he | he
        · left; rw [hr]; exact he
        · right; exact ⟨hr, he⟩
      · left; exact he
    refine ⟨by simpa using hi.uVm, ?_, by simpa using hi.uSvc, ?_, ?_, ?_, by simpa using hi.svcVm⟩
    · intro r'
      rw [getRel_setRel]
      split
      · exact append_inv _ _ _ (hi.uRel r)
      · exact hi.uRel r'
    · intro r1 r2 hne e1 he1 e2 he2
      rcases hmem r1 e1 he1 with h1 | ⟨a, h1⟩ <;> rcases hmem r2 e2 he2 with h2 | ⟨b, h2⟩
      · exact hi.cross r1 r2 hne e1 h1 e2 h2
      · subst h2
        intro hid
        refine ⟨?_, rfl⟩
        cases hemb : e1.isEmbed with
        | false => rfl
        | true => exact absurd hid (hi.vmEmb m hmv r1 e1 h1 hemb)
      · subst h1
        intro hid
        refine ⟨rfl, ?_⟩
        cases hemb : e2.isEmbed with
        | false => rfl
        | true => exact absurd hid.symm (hi.vmEmb m hmv r2 e2 h2 hemb)
      · exact absurd (a.trans b.symm) hne
    · intro v hv r' e he hemb
      rw [setRel_vm] at hv
      rcases hmem r' e he with h1 | ⟨_, h1⟩
      · exact hi.vmEmb v hv r' e h1 hemb
      · subst h1; cases hemb
    · intro sv hsv r' e he
      rw [setRel_service] at hsv
      rcases hmem r' e he with h1 | ⟨_, h1⟩
      · exact hi.svcRel sv hsv r' e h1
      · subst h1; exact hi.svcVm sv hsv m hmv

/-- well-formedness the library's constructors guarantee for what is inserted: a non-empty fragment -/
def Op.WF : Op → Prop
  | .insertMethod m _ => m.id.frag ≠ none
  | .insertService s => s.id.frag ≠ none
  | _ => True

theorem step_inv (d : Doc) (op : Op) (hwf : op.WF) (hi : Inv d) : Inv (step d op).1 := by
  cases op with
  | insertMethod m s => exact insertMethod_inv d m s hi hwf
  | removeMethod k => exact inv_of_sub (removeMethod_sub d k) hi
  | insertService s => exact insertService_inv d s hi
  | removeService k => exact inv_of_sub (removeService_sub d k) hi
  | attach q r => exact attach_inv d q r hi
  | detach q r => exact inv_of_sub (detach_sub d q r) hi

theorem run_inv (ops : List Op) : ∀ d : Doc, (∀ op ∈ ops, op.WF) → Inv d → Inv (run d ops) := by
  induction ops with
  | nil => intro d _ h; exact h
  | cons op t ih =>
    intro d hwf hi
    unfold run
    rw [List.foldl_cons]
    exact ih _ (fun o ho => hwf o (List.mem_cons_of_mem _ ho)) (step_inv d op (hwf op List.mem_cons_self) hi)

/-- a refused operation leaves the document unchanged -/
theorem step_refused_unchanged (d : Doc) (op : Op) (h : (step d op).2.isErr = true) : (step d op).1 = d := by
  cases op with
  | insertMethod m s =>
    simp only [step, insertMethod, insertMethodG] at h ⊢
    split
    · rfl
    · rename_i hg; rw [if_neg hg] at h; cases s <;> cases h
  | removeMethod k =>
    simp only [step, removeMethod] at h
    split at h <;> cases h
  | insertService s =>
    simp only [step, insertService] at h ⊢
    split
    · rfl
    · split
      · rename_i h1 h2; rw [if_neg h1, if_pos h2] at h; cases h
      · rfl
  | removeService k => simp only [step, removeService] at h; cases h
  | attach q r =>
    simp only [step, attach] at h ⊢
    split
    · split <;> rfl
    · rename_i m hm; rw [hm] at h; cases h
  | detach q r =>
    simp only [step, detach] at h ⊢
    split
    · split <;> rfl
    · rename_i m hm; rw [hm] at h; cases h

end IdModel.Doc
