import IdModel.Doc.Model
import IdModel.Gen.C14
/-!
Model of `identity_iota_core::state_metadata` (property C14): replacing the document's own DID by the placeholder
when packing, replacing the placeholder by the target DID when unpacking (`CoreDocument::map_unchecked` /
`try_map`, i.e. `CoreDocumentData::try_map` followed by the id-constraint gate), and the byte framing
`[ "DID", version, encoding, u16-LE length, data ]`.

DIDs are abstract numbers; `isIota` says which of them are valid IOTA DIDs.  Everything a rewrite does not touch
(alsoKnownAs, custom properties, method material, service endpoints, metadata timestamps and properties) is the
opaque `rest` / `body`.  JSON is a parameter (see `Props/C14`).
-/
namespace IdModel.Meta
open IdModel.Doc IdModel.OSet

structure Mth where
  id : Id
  controller : Nat
  body : Nat
  deriving DecidableEq, Repr

inductive MR
  | embed (m : Mth)
  | refer (id : Id)
  deriving DecidableEq, Repr

def MR.id : MR → Id
  | .embed m => m.id
  | .refer i => i

/-- an IOTA document as far as DID rewriting is concerned -/
structure IDoc where
  id : Nat
  controller : Option (OneOrSet Nat)
  vm : List Mth
  auth : List MR
  asrt : List MR
  keyAgr : List MR
  capDel : List MR
  capInv : List MR
  service : List Service
  /-- governor / state-controller addresses present (metadata) -/
  addrs : Bool
  rest : Nat
  deriving DecidableEq, Repr

/-- projection to the C04 document model (the gate does not look at controllers) -/
def Mth.toMethod (m : Mth) : Method := ⟨m.id, m.body⟩
def MR.toMRef : MR → MRef
  | .embed m => .embed m.toMethod
  | .refer i => .refer i
def IDoc.toDoc (d : IDoc) : Doc :=
  ⟨d.id, d.vm.map Mth.toMethod, d.auth.map MR.toMRef, d.asrt.map MR.toMRef, d.keyAgr.map MR.toMRef,
   d.capDel.map MR.toMRef, d.capInv.map MR.toMRef, d.service⟩

/-! ### mapping DIDs (`try_map`); `none` = the closure returned an error -/

def mapId (f : Nat → Option Nat) (i : Id) : Option Id := (f i.did).map fun d => { i with did := d }

def Mth.tryMap (f : Nat → Option Nat) (m : Mth) : Option Mth :=
  match mapId f m.id, f m.controller with
  | some i, some c => some ⟨i, c, m.body⟩
  | _, _ => none

def MR.tryMap (f : Nat → Option Nat) : MR → Option MR
  | .embed m => (m.tryMap f).map .embed
  | .refer i => (mapId f i).map .refer

def svcTryMap (f : Nat → Option Nat) (s : Service) : Option Service := (mapId f s.id).map fun i => ⟨i, s.body⟩

/-- map with a fallible function; the first failure fails the whole -/
def optMap {α β : Type} (g : α → Option β) : List α → Option (List β)
  | [] => some []
  | a :: t =>
    match g a, optMap g t with
    | some b, some r => some (b :: r)
    | _, _ => none

/-- `.into_iter().map(..).collect::<Result<OrderedSet<_>, E>>()`: first error wins, later duplicates are dropped -/
def collect {α κ : Type} [DecidableEq κ] (key : α → κ) (g : α → Option α) (l : List α) : Option (List α) :=
  (optMap g l).map (fromIter key)

/-- `OneOrSet::try_map` -/
def oosTryMap (f : Nat → Option Nat) : OneOrSet Nat → Option (OneOrSet Nat)
  | .one x => (f x).map .one
  | .set xs =>
    match optMap f xs with
    | none => none
    | some ys =>
      match fromIter id ys with
      | [y] => some (.one y)
      | zs => some (.set zs)

/-- the optional controller set -/
def ctlTryMap (fc : Nat → Option Nat) : Option (OneOrSet Nat) → Option (Option (OneOrSet Nat))
  | none => some none
  | some c => (oosTryMap fc c).map some

/-- `CoreDocumentData::try_map` -/
def dataTryMap (fid fc fm fs : Nat → Option Nat) (d : IDoc) : Option IDoc :=
  match fid d.id with
  | none => none
  | some i =>
    match ctlTryMap fc d.controller with
    | none => none
    | some ctl =>
      match collect Mth.id (Mth.tryMap fm) d.vm, collect MR.id (MR.tryMap fm) d.auth,
        collect MR.id (MR.tryMap fm) d.asrt, collect MR.id (MR.tryMap fm) d.keyAgr,
        collect MR.id (MR.tryMap fm) d.capDel, collect MR.id (MR.tryMap fm) d.capInv,
        collect Service.id (svcTryMap fs) d.service with
      | some vm, some a, some b, some c, some e, some g, some sv =>
        some { d with id := i, controller := ctl, vm := vm, auth := a, asrt := b, keyAgr := c, capDel := e,
                       capInv := g, service := sv }
      | _, _, _, _, _, _, _ => none

/-- `CoreDocument::try_from(data)`: the id-constraint gate -/
def gate (d : IDoc) : Option IDoc := if checkIdConstraints d.toDoc then some d else none

/-! ### pack / unpack at the document level -/

/-- `From<IotaDocument> for StateMetadataDocument` (`map_unchecked`: no gate), then `pack` unsets the addresses -/
def toPlaceholder (P : Nat) (d : IDoc) : Option IDoc :=
  let f : Nat → Option Nat := fun x => some (if x = d.id then P else x)
  (dataTryMap f f f f d).map fun x => { x with addrs := false }

inductive UErr
  | notIota | gate
  deriving DecidableEq, Repr

/-- sizes of the seven collections (`CoreDocumentData::collection_sizes`) -/
def IDoc.sizes (d : IDoc) : List Nat :=
  [d.vm.length, d.auth.length, d.asrt.length, d.keyAgr.length, d.capDel.length, d.capInv.length, d.service.length]

/-- `StateMetadataDocument::into_iota_document`; `chk`: `CoreDocument::try_map` compares collection sizes -/
def intoIotaG (chk : Bool) (isIota : Nat → Bool) (P t : Nat) (d : IDoc) : Except UErr IDoc :=
  let strict : Nat → Option Nat := fun x =>
    if x = P then some t else if Gen.C14.idAndControllerChecked && !isIota x then none else some x
  let lax : Nat → Option Nat := fun x => some (if x = P then t else x)
  match dataTryMap strict strict lax lax d with
  | none => .error .notIota
  | some d' =>
    -- `CoreDocument::try_map`: a collection that became smaller means two entries got one identifier
    if chk && d'.sizes != d.sizes then .error .gate
    else
      match gate d' with
      | none => .error .gate
      | some d'' => .ok d''

def intoIota (isIota : Nat → Bool) (P t : Nat) (d : IDoc) : Except UErr IDoc :=
  intoIotaG Gen.C14.tryMapChecksSizes isIota P t d

/-! ### framing -/

inductive FErr
  | noMarker | marker | noVersion | version | noEncoding | encoding | noLength | short
  deriving DecidableEq, Repr

/-- `add_flags_to_message`; `none` = the length does not fit 16 bits -/
def frame (data : List Nat) : Option (List Nat) :=
  if data.length ≤ Gen.C14.maxLen then
    some (Gen.C14.marker ++ [Gen.C14.currentVersion, Gen.C14.jsonEncoding,
      data.length % 256, data.length / 256] ++ data)
  else none

/-- the header parsing of `StateMetadataDocument::unpack`: the payload handed to the JSON decoder -/
def unframe (bs : List Nat) : Except FErr (List Nat) :=
  if bs.length < 3 then .error .noMarker
  else if bs.take 3 ≠ Gen.C14.marker then .error .marker
  else match bs[3]? with
    | none => .error .noVersion
    | some v =>
      if !Gen.C14.versions.contains v then .error .version
      else if v ≠ Gen.C14.acceptedVersion then .error .version
      else match bs[4]? with
        | none => .error .noEncoding
        | some e =>
          if !Gen.C14.encodings.contains e then .error .encoding
          else match bs[5]?, bs[6]? with
            | some lo, some hi =>
              let n := lo + 256 * hi
              if 7 + n ≤ bs.length then .ok ((bs.drop 7).take n) else .error .short
            | _, _ => .error .noLength

end IdModel.Meta
