#!/usr/bin/env python3
"""seed_prompt.py <Cxx> <first-number> <count>  — prints the brief handed to an independent sub-agent that is asked for
property-breaking changes.  The agent gets the property record, its scratch worktree /tmp/seed-<Cxx> and one line per
change that was already produced for this property (so that it looks elsewhere) — nothing else from /verif."""
import glob, json, os, sys

P, FIRST, COUNT = sys.argv[1], int(sys.argv[2]), int(sys.argv[3])
here = os.path.dirname(os.path.abspath(__file__)) + "/.."
prop = [json.loads(l) for l in open(here + "/properties.jsonl") if json.loads(l)["id"] == P][0]
have = []
for d in sorted(glob.glob(here + "/seeded/%s-*" % P)):
    try:
        ls = [l.strip() for l in open(d + "/notes.txt").read().strip().splitlines() if l.strip() and not set(l.strip()) <= set("=-")]
        # first line, plus the next two when the first does not say what was changed
        t = ls[0] if len(ls[0]) > 60 and "demo:" not in ls[0] else " | ".join(ls[:4])
        have.append(t[:420])
    except OSError:
        pass
nums = ", ".join(str(FIRST + i) for i in range(COUNT))
print(f"""You are helping to test a verification framework for the Rust repository iotaledger/identity.rs by writing
deliberately subtle, property-breaking changes ("seeded changes"). You work ONLY inside your own scratch git worktree
/tmp/seed-{P} (a worktree of the repository at its current commit). Never touch /repo or /verif, never read /verif.

The property (this record is all the specification you get):

{json.dumps(prop, indent=1)}

Task: produce {COUNT} independent small changes to the library's source (numbered {nums}) such that each one
  (a) compiles, and the EXISTING test suite of every crate it can affect still passes unedited,
  (b) breaks the property above, and
  (c) needs something specific to manifest: an unusual input, a boundary value, a particular multi-step sequence of
      operations, a particular option combination, a fault or interleaving at a particular point, or two cooperating
      sites that each look fine alone. NOT something ordinary use would expose at once. Make it look like a plausible
      refactoring slip, optimisation, or "improvement" a maintainer could really make. Prefer places in the anchored
      files (and the code they call inside this repository) that differ from one another; spread the changes over
      different functions / mechanisms of the property.

Changes that were already produced for this property — do NOT repeat these or trivial variants of them; look elsewhere:
{chr(10).join("  - " + h for h in have) if have else "  (none)"}

For each change n write, under /tmp/seed-{P}/out/<n>/ :
  patch.diff   — `git diff` of the change to library source only (must apply with `git apply` to a clean checkout)
  demo.rs      — a self-contained integration test file (it will be copied to <crate>/tests/seed_demo_<n>.rs) that PASSES
                 on the unchanged tree and FAILS with the patch applied; use only dependencies / dev-dependencies that
                 <crate> already has; if it needs cargo feature flags say so in crate.txt
  crate.txt    — first line: the crate name whose tests/ directory the demo goes into (e.g. identity_jose); optional
                 second line: extra cargo arguments (e.g. --features sd-jwt-vc)
  notes.txt    — first line: "Seed {P}-<n>: <one-sentence description>"; then the file / function changed, what it breaks,
                 what is needed for it to manifest, and the exact commands you ran with their results

How to work (sandbox is OFFLINE; there are 16 cores shared with other jobs):
  export CARGO_NET_OFFLINE=true CARGO_TARGET_DIR=/tmp/seed-{P}/target ; cd /tmp/seed-{P}
  cargo test -p <crate> --offline [--features ...]            # existing tests of the affected crate(s) must pass WITH the patch
  cargo test -p <crate> --offline --test seed_demo_<n>         # must fail WITH the patch, pass WITHOUT it
Run the existing tests of every crate that depends on the code you changed and could notice (e.g. identity_storage and
identity_credential use identity_jose / identity_document). Do not use `--workspace` with default features if it tries to
build iota-sdk slowly; per-crate runs are fine. Before starting change n+1 restore the tree:
  git checkout -- . && git clean -fdq -e out -e target
Leave the worktree clean (apart from out/ and target/) when you finish. Do not commit anything.

Report back: for each change one paragraph (what, where, what it needs to manifest, confirmation results). If a change
you tried is caught by an existing test, drop it and find another rather than editing tests.""")
