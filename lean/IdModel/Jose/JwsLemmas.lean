import IdModel.Jose.Jws
import IdModel.Core.B64Lemmas
/-! Helper lemmas for C01 / C08. -/
namespace IdModel.Jose

theorem splitOn_ne_nil (sep : Nat) (l : Bytes) : splitOn sep l ≠ [] := by
  induction l with
  | nil => simp [splitOn]
  | cons c r ih =>
    unfold splitOn
    split
    · simp
    · split
      · rename_i h; exact absurd h ih
      · simp

theorem splitOn_nosep (sep : Nat) (l : Bytes) (h : sep ∉ l) : splitOn sep l = [l] := by
  induction l with
  | nil => rfl
  | cons c r ih =>
    have hc : c ≠ sep := fun e => h (e ▸ List.mem_cons_self)
    have hr : sep ∉ r := fun m => h (List.mem_cons_of_mem _ m)
    rw [splitOn, if_neg hc, ih hr]

theorem splitOn_append (sep : Nat) (a r : Bytes) (h : sep ∉ a) :
    splitOn sep (a ++ sep :: r) = a :: splitOn sep r := by
  induction a with
  | nil => simp [splitOn]
  | cons c t ih =>
    have hc : c ≠ sep := fun e => h (e ▸ List.mem_cons_self)
    have ht : sep ∉ t := fun m => h (List.mem_cons_of_mem _ m)
    simp only [List.cons_append]
    rw [splitOn, if_neg hc, ih ht]

theorem splitOn_cons (sep : Nat) (l a : Bytes) (rest : List Bytes) (h : splitOn sep l = a :: rest) :
    sep ∉ a ∧ ((rest = [] ∧ l = a) ∨ (∃ r, l = a ++ sep :: r ∧ splitOn sep r = rest)) := by
  induction l generalizing a rest with
  | nil =>
    simp [splitOn] at h
    obtain ⟨h1, h2⟩ := h
    subst h1; subst h2
    exact ⟨by simp, Or.inl ⟨rfl, rfl⟩⟩
  | cons c r ih =>
    unfold splitOn at h
    split at h
    · rename_i hc
      injection h with h1 h2
      subst h1
      exact ⟨by simp, Or.inr ⟨r, by simp [hc], h2⟩⟩
    · rename_i hc
      split at h
      · rename_i hnil; exact absurd hnil (splitOn_ne_nil sep r)
      · rename_i hd tl hsp
        injection h with h1 h2
        subst h1; subst h2
        obtain ⟨hn, hcase⟩ := ih hd tl hsp
        refine ⟨?_, ?_⟩
        · intro hm
          rcases List.mem_cons.1 hm with e | e
          · exact hc e.symm
          · exact hn e
        · rcases hcase with ⟨e1, e2⟩ | ⟨r', e1, e2⟩
          · left; exact ⟨e1, by rw [e2]⟩
          · right; exact ⟨r', by rw [e1]; rfl, e2⟩

/-- exactly three segments ⇔ the token is `a.b.c` with dot-free `a`, `b`, `c` -/
theorem splitOn_three (tok a b c : Bytes) :
    splitOn 46 tok = [a, b, c] ↔ (tok = a ++ 46 :: (b ++ 46 :: c) ∧ 46 ∉ a ∧ 46 ∉ b ∧ 46 ∉ c) := by
  constructor
  · intro h
    obtain ⟨ha, hc1⟩ := splitOn_cons 46 tok a [b, c] h
    rcases hc1 with ⟨e, _⟩ | ⟨r1, e1, h1⟩
    · cases e
    · obtain ⟨hb, hc2⟩ := splitOn_cons 46 r1 b [c] h1
      rcases hc2 with ⟨e, _⟩ | ⟨r2, e2, h2⟩
      · cases e
      · obtain ⟨hcc, hc3⟩ := splitOn_cons 46 r2 c [] h2
        rcases hc3 with ⟨_, e3⟩ | ⟨r3, _, h3⟩
        · subst e3; subst e2; exact ⟨e1, ha, hb, hcc⟩
        · exact absurd h3 (splitOn_ne_nil 46 r3)
  · rintro ⟨e, ha, hb, hc⟩
    rw [e, splitOn_append 46 a _ ha, splitOn_append 46 b _ hb, splitOn_nosep 46 c hc]

/-- a dot-free prefix is determined by the string: unique split at the first dot -/
theorem first_dot_unique (a a' r r' : Bytes) (ha : 46 ∉ a) (ha' : 46 ∉ a')
    (h : a ++ 46 :: r = a' ++ 46 :: r') : a = a' ∧ r = r' := by
  induction a generalizing a' with
  | nil =>
    cases a' with
    | nil => simp at h; exact ⟨rfl, h⟩
    | cons c t =>
      simp at h
      exact absurd (h.1 ▸ List.mem_cons_self) ha'
  | cons c t ih =>
    cases a' with
    | nil =>
      simp at h
      exact absurd (h.1 ▸ List.mem_cons_self) ha
    | cons c' t' =>
      simp only [List.cons_append, List.cons.injEq] at h
      obtain ⟨e1, e2⟩ := ih t' (fun m => ha (List.mem_cons_of_mem _ m))
        (fun m => ha' (List.mem_cons_of_mem _ m)) h.2
      exact ⟨by rw [h.1, e1], e2⟩

end IdModel.Jose
