import IdModel.Doc.Model
import IdModel.Gen.C09
/-!
Model of the storage-backed document API of `identity_storage::storage::JwkDocumentExt` as far as C09 needs
it: `generate_method` and `purge_method` over a document (the C04 model), a key store (`JwkStorage`) and a
key-id store (`KeyIdStorage`), with every storage call allowed to fail without effect.

The stores follow `JwkMemStore` / `KeyIdMemstore` (insert refuses an existing digest, get/delete refuse a
missing one); `Faults` says which calls of one operation fail on top of that.  Key ids are numbered in the
order of generation; a generated method's key material is `1000 + key number`; a `MethodDigest` is the pair
(fragment, key material) — the 64-bit hash is not modelled.
-/
namespace IdModel.Store
open IdModel.Doc

abbrev Digest := Option Nat × Nat

structure St where
  doc : Doc
  keys : List Nat
  kids : List (Digest × Nat)
  next : Nat
  deriving DecidableEq, Repr

inductive Err
  | keyStorage | construction | fragmentExists | keyIdStorage | methodNotFound | digest | undoFailed
  deriving DecidableEq, Repr

/-- which storage calls of one operation fail (without effect) -/
structure Faults where
  generate : Bool
  deleteKey : Bool
  insertKid : Bool
  getKid : Bool
  deleteKid : Bool
  deriving DecidableEq, Repr

/-- `MethodDigest::new`: fails on key material that cannot be decoded (body 0) -/
def digestOf (m : Method) : Option Digest := if m.body = 0 then none else some (m.id.frag, m.body)

def lookupKid (kids : List (Digest × Nat)) (dg : Digest) : Option Nat :=
  (kids.find? (fun e => e.1 == dg)).map (·.2)

/-- `KeyIdStorage::insert_key_id` -/
def insertKid (fail : Bool) (kids : List (Digest × Nat)) (dg : Digest) (k : Nat) : Option (List (Digest × Nat)) :=
  if fail || (lookupKid kids dg).isSome then none else some (kids ++ [(dg, k)])

/-- `KeyIdStorage::get_key_id` -/
def getKid (fail : Bool) (kids : List (Digest × Nat)) (dg : Digest) : Option Nat :=
  if fail then none else lookupKid kids dg

/-- `KeyIdStorage::delete_key_id` -/
def deleteKid (fail : Bool) (kids : List (Digest × Nat)) (dg : Digest) : Option (List (Digest × Nat)) :=
  if fail || (lookupKid kids dg).isNone then none else some (kids.filter (fun e => !(e.1 == dg)))

/-- `JwkStorage::delete` -/
def deleteKey (fail : Bool) (keys : List Nat) (k : Nat) : Option (List Nat) :=
  if fail || !keys.contains k then none else some (keys.filter (fun x => !(x == k)))

/-- `try_undo_key_generation`, when the failure site calls it -/
def undoKeyGeneration (site : Bool) (f : Faults) (keys : List Nat) (k : Nat) (src : Err) : List Nat × Err :=
  if site && Gen.C09.undoDeletesKey then
    match deleteKey f.deleteKey keys k with
    | some keys' => (keys', src)
    | none => (keys, .undoFailed)
  else (keys, src)

/-- `generate_method`.  `frag`: `none` = a fragment that is not valid DID URL syntax, `some none` = use the
JWK's `kid`, `some (some n)` = explicit fragment -/
def generate (s : St) (f : Faults) (frag : Option (Option Nat)) (scope : Scope) : St × Except Err Nat :=
  if f.generate then (s, .error .keyStorage) else
  let k := s.next + 1
  let s1 : St := { s with keys := s.keys ++ [k], next := k }
  match frag with
  | none =>
    let u := undoKeyGeneration Gen.C09.undoOnConstruction f s1.keys k .construction
    ({ s1 with keys := u.1 }, .error u.2)
  | some fr =>
    let fragN := fr.getD (100 + k)
    let m : Method := ⟨⟨s.doc.id, 0, some fragN⟩, 1000 + k⟩
    let r := insertMethod s1.doc m scope
    if r.2.isErr then
      let u := undoKeyGeneration Gen.C09.undoOnInsert f s1.keys k .fragmentExists
      ({ s1 with keys := u.1 }, .error u.2)
    else
      match insertKid f.insertKid s1.kids (some fragN, 1000 + k) k with
      | none =>
        let d := if Gen.C09.generateRestoresBackup then s1.doc else (removeMethod r.1 m.id).1
        let u := undoKeyGeneration Gen.C09.undoOnKeyId f s1.keys k .keyIdStorage
        ({ s1 with doc := d, keys := u.1 }, .error u.2)
      | some kids' => ({ s1 with doc := r.1, kids := kids' }, .ok fragN)

/-- the storage part of `purge_method`, after the method and its digest are known; `onOk` / `onKeyGone` say what
happens to the document when both deletions succeed / when only the key is gone; `restore` what is done to it on
the recoverable failures -/
def purgeStores (s : St) (f : Faults) (dg : Digest) (kid : Nat) (removed restored : Doc) : St × Except Err Unit :=
  match deleteKey f.deleteKey s.keys kid, deleteKid f.deleteKid s.kids dg with
  | some keys', some kids' => ({ s with doc := removed, keys := keys', kids := kids' }, .ok ())
  | some keys', none => ({ s with doc := removed, keys := keys' }, .error .undoFailed)
  | none, some kids' =>
    if Gen.C09.purgeReinsertsKeyId then
      match insertKid f.insertKid kids' dg kid with
      | none => ({ s with doc := (if Gen.C09.purgeLooksUpFirst then s.doc else removed), kids := kids' }, .error .undoFailed)
      | some kids'' => ({ s with doc := restored, kids := kids'' }, .error .keyStorage)
    else ({ s with doc := restored, kids := kids' }, .error .keyStorage)
  | none, none => ({ s with doc := restored }, .error .keyIdStorage)

/-- `purge_method` -/
def purge (s : St) (f : Faults) (k : Id) : St × Except Err Unit :=
  if Gen.C09.purgeLooksUpFirst then
    -- look the method up, touch the document last
    match (allMethods s.doc).find? (fun m => decide (m.id = k)) with
    | none => (s, .error .methodNotFound)
    | some m =>
      match digestOf m with
      | none => (s, .error .digest)
      | some dg =>
        match getKid f.getKid s.kids dg with
        | none => (s, .error .keyIdStorage)
        | some kid => purgeStores s f dg kid (removeMethod s.doc k).1 s.doc
  else
    -- remove the method first, re-insert it on failure
    match removeMethod s.doc k with
    | (d', .removedMethod (some (m, sc))) =>
      let back := (insertMethod d' m sc).1
      match digestOf m with
      | none => ({ s with doc := back }, .error .digest)
      | some dg =>
        match getKid f.getKid s.kids dg with
        | none => ({ s with doc := back }, .error .keyIdStorage)
        | some kid => purgeStores s f dg kid d' back
    | (d', _) => ({ s with doc := d' }, .error .methodNotFound)

end IdModel.Store
