import IdModel.Jwk.Model
/-!
The TEXT `Jwk::thumbprint_hash_input` produces: `format!(r#"{{"crv":"{crv}","kty":"{kty}","x":"{x}"}}"#)` and its siblings —
the members of `thumbprintInput` in order, each value pasted between quotes WITHOUT JSON escaping.  Characters are `Char`.
Import-free apart from the JWK model; executable.
-/
namespace IdModel.Jwk.Thumb

/-- `"` -/
def q : Char := '"'

/-- one member `"name":"value"` -/
def member (n v : List Char) : List Char := q :: n ++ [q, ':', q] ++ v ++ [q]

/-- members joined by commas -/
def members : List (List Char × List Char) → List Char
  | [] => []
  | [(n, v)] => member n v
  | (n, v) :: r => member n v ++ ',' :: members r

/-- `format!(r#"{{"crv":"{crv}","kty":"{kty}",…}}"#)`: the members in the order of the format string, values pasted verbatim
(no JSON escaping) -/
def text (ps : List (List Char × List Char)) : List Char := '{' :: members ps ++ ['}']

/-- the hash input of a key, as text -/
def thumbprintText (j : Jwk) : List Char :=
  text ((thumbprintInput j).map fun m => (m.1.toList, m.2.toList))

end IdModel.Jwk.Thumb
