//! C08 — JWS encoders + own decoder against the Lean model `IdModel.Jose.Jws`.
use crate::c01::b64_strict;
use crate::jose_util::*;
use crate::rng::{hex, unhex, Rng};
use identity_jose::jws::{CharSet, CompactJwsEncoder, CompactJwsEncodingOptions, Decoder, FlattenedJwsEncoder, GeneralJwsEncoder, JwsHeader, JwsValidationItem, Recipient};
use std::io::Write;

fn show_it(r: Result<JwsValidationItem<'_>, identity_jose::error::Error>) -> (String, Option<(Vec<u8>, Vec<u8>, Vec<u8>)>) {
  match r {
    Err(_) => ("undecodable".into(), None),
    Ok(it) => {
      let alg = it.alg().map(|a| a.name().to_string()).unwrap_or("-".into());
      (
        format!("dec:{}:{}:{}:{}", hex(it.signing_input()), hex(it.decoded_signature()), hex(it.claims()), alg),
        Some((it.signing_input().to_vec(), it.decoded_signature().to_vec(), it.claims().to_vec())),
      )
    }
  }
}

fn ho(o: Option<&[u8]>) -> String {
  o.map(hex).unwrap_or("~".into())
}

fn recipient<'a>(p: &'a Option<JwsHeader>, u: &'a Option<JwsHeader>) -> Recipient<'a> {
  let mut r = Recipient::new();
  if let Some(p) = p {
    r = r.protected(p);
  }
  if let Some(u) = u {
    r = r.unprotected(u);
  }
  r
}

fn hdr(t: &str) -> Option<(Option<HSpec>, Option<JwsHeader>)> {
  let s = parse_hspec(t)?;
  let b = match &s {
    None => None,
    Some(s) => Some(build_header(s)?),
  };
  Some((s, b))
}

/// oracle: the library's own decoder gives back what was signed
fn roundtrip_oracle(dec: &Option<(Vec<u8>, Vec<u8>, Vec<u8>)>, si: &[u8], sig: &[u8], payload: &[u8], what: &str) -> Option<String> {
  match dec {
    None => Some(format!("own-token-does-not-decode:{}", what)),
    Some((dsi, dsig, claims)) => {
      if dsi != si {
        Some(format!("decoded-signing-input-differs:{}", what))
      } else if dsig != sig {
        Some(format!("decoded-signature-differs:{}", what))
      } else if claims != payload {
        Some(format!("decoded-claims-differ:{}", what))
      } else {
        None
      }
    }
  }
}

pub fn run(args: &[&str]) -> String {
  let args: Vec<&str> = args.iter().copied().filter(|t| !t.starts_with("S=")).collect();
  let with = |obs: String, f: Option<String>| match f {
    Some(f) => format!("{}\t#FAIL:{}", obs, f),
    None => obs,
  };
  match args.first().copied() {
    Some("compact") if args.len() == 5 => {
      let (Some(pl), Some((Some(spec), Some(h))), Some(sig)) = (unhex(args[1]), hdr(args[2]), unhex(args[4])) else { return "bad-request".into() };
      let opts = match args[3] {
        "det" => CompactJwsEncodingOptions::Detached,
        "nd-default" => CompactJwsEncodingOptions::NonDetached { charset_requirements: CharSet::Default },
        "nd-url" => CompactJwsEncodingOptions::NonDetached { charset_requirements: CharSet::UrlSafe },
        _ => return "bad-request".into(),
      };
      let enc = match CompactJwsEncoder::new_with_options(&pl, &h, opts) {
        Ok(e) => e,
        Err(_) => return "err".into(),
      };
      let si = enc.signing_input().to_vec();
      let tok = enc.into_jws(&sig);
      // the detached payload to present: the bytes that were signed after the header segment
      let detp: Option<Vec<u8>> = if args[3] == "det" { Some(si[si.iter().position(|b| *b == b'.').unwrap() + 1..].to_vec()) } else { None };
      let (d, dv) = show_it(Decoder::new().decode_compact_serialization(tok.as_bytes(), detp.as_deref()));
      let f = if pl.is_empty() { None } else { roundtrip_oracle(&dv, &si, &sig, &pl, "compact") };
      let _ = spec;
      with(format!("tok:{}:{}:{}", hex(tok.as_bytes()), hex(&si), d), f)
    }
    Some("flat") if args.len() == 7 => {
      let (Some(pl), Some((_, p)), Some((_, u)), Some(sig)) = (unhex(args[1]), hdr(args[2]), hdr(args[3]), unhex(args[6])) else { return "bad-request".into() };
      let detached = args[4] == "1";
      let enc = match FlattenedJwsEncoder::new(&pl, recipient(&p, &u), detached) {
        Ok(e) => e,
        Err(_) => return "err".into(),
      };
      let si = enc.signing_input().to_vec();
      let tok = match enc.into_jws(&sig) {
        Ok(t) => t,
        Err(_) => return "err".into(),
      };
      let v: serde_json::Value = serde_json::from_str(&tok).unwrap();
      let mp = v.get("payload").and_then(|x| x.as_str()).map(|s| s.as_bytes().to_vec());
      let mprot = v.get("protected").and_then(|x| x.as_str()).map(|s| s.as_bytes().to_vec());
      let msig = v.get("signature").and_then(|x| x.as_str()).map(|s| s.as_bytes().to_vec()).unwrap_or_default();
      let detp: Option<Vec<u8>> = if detached { Some(si[si.iter().position(|b| *b == b'.').unwrap() + 1..].to_vec()) } else { None };
      let (d, dv) = show_it(Decoder::new().decode_flattened_serialization(tok.as_bytes(), detp.as_deref()));
      let f = if pl.is_empty() { None } else { roundtrip_oracle(&dv, &si, &sig, &pl, "flattened") };
      with(format!("m:{}:{}:{}:{}:{}", ho(mp.as_deref()), ho(mprot.as_deref()), hex(&msig), hex(&si), d), f)
    }
    Some("general") if args.len() >= 7 && (args.len() - 4) % 3 == 0 => {
      let Some(pl) = unhex(args[1]) else { return "bad-request".into() };
      let detached = args[2] == "1";
      let n = (args.len() - 4) / 3;
      let mut hs = vec![];
      for i in 0..n {
        let (Some((_, p)), Some((_, u)), Some(sig)) = (hdr(args[4 + 3 * i]), hdr(args[5 + 3 * i]), unhex(args[6 + 3 * i])) else { return "bad-request".into() };
        hs.push((p, u, sig));
      }
      let mut sis: Vec<Vec<u8>> = vec![];
      let mut enc = match GeneralJwsEncoder::new(&pl, recipient(&hs[0].0, &hs[0].1), detached) {
        Ok(e) => e,
        Err(_) => return "err@0".into(),
      };
      for i in 0..n {
        sis.push(enc.signing_input().to_vec());
        let ready = enc.set_signature(&hs[i].2);
        if i + 1 < n {
          enc = match ready.add_recipient(recipient(&hs[i + 1].0, &hs[i + 1].1)) {
            Ok(e) => e,
            Err(_) => return format!("err@{}", i + 1),
          };
        } else {
          let tok = match ready.into_jws() {
            Ok(t) => t,
            Err(_) => return "err-into-jws".into(),
          };
          let v: serde_json::Value = serde_json::from_str(&tok).unwrap();
          let mp = v.get("payload").and_then(|x| x.as_str()).map(|s| s.as_bytes().to_vec());
          let sigs: Vec<String> = v["signatures"]
            .as_array()
            .unwrap()
            .iter()
            .map(|s| format!("{}/{}", ho(s.get("protected").and_then(|x| x.as_str()).map(|x| x.as_bytes())), hex(s["signature"].as_str().unwrap().as_bytes())))
            .collect();
          let detp: Option<Vec<u8>> = if detached { Some(sis[0][sis[0].iter().position(|b| *b == b'.').unwrap() + 1..].to_vec()) } else { None };
          let mut f = None;
          let decs = match Decoder::new().decode_general_serialization(tok.as_bytes(), detp.as_deref()) {
            Err(_) => {
              if !pl.is_empty() {
                f = Some("own-token-does-not-decode:general".to_string());
              }
              "undecodable".to_string()
            }
            Ok(iter) => {
              let mut out = vec![];
              for (k, r) in iter.enumerate() {
                let (d, dv) = show_it(r);
                if !pl.is_empty() {
                  f = f.or(roundtrip_oracle(&dv, &sis[k], &hs[k].2, &pl, "general"));
                }
                out.push(d);
              }
              out.join(" ")
            }
          };
          let obs = format!("g:{}:{}:{} {}", ho(mp.as_deref()), sigs.join(","), sis.iter().map(|s| hex(s)).collect::<Vec<_>>().join(" "), decs);
          return with(obs, f);
        }
      }
      "bad-request".into()
    }
    Some("sign") if args.len() == 3 => {
      let (o, pl) = (args[1].to_string(), args[2].to_string());
      match std::panic::catch_unwind(move || sign_req(&o, &pl)) {
        Ok(Some(s)) => s,
        Ok(None) => "bad-request".into(),
        Err(_) => "PANIC\t#FAIL:panic:storage-backed signing panicked".into(),
      }
    }
    Some("doc") if args.len() == 2 => {
      let Ok(n) = args[1].parse::<u64>() else { return "bad-request".into() };
      match std::panic::catch_unwind(move || doc_stream(n)) {
        Ok(None) => "impl-only".into(),
        Ok(Some(f)) => format!("impl-only\t#FAIL:{}", f),
        Err(_) => "impl-only\t#FAIL:panic:storage-backed signing or verification panicked".into(),
      }
    }
    _ => "bad-request".into(),
  }
}

/// storage-backed signing through a DID document with every combination of signature options;
/// implementation-side oracle only (the document model arrives with C04)
fn doc_stream(n: u64) -> Option<String> {
  use identity_core::common::{Object, Url};
  use identity_did::{CoreDID, DID};
  use identity_document::document::CoreDocument;
  use identity_document::verifiable::JwsVerificationOptions;
  use identity_eddsa_verifier::EdDSAJwsVerifier;
  use identity_jose::jws::JwsAlgorithm;
  use identity_storage::{JwkDocumentExt, JwkMemStore, JwsSignatureOptions, KeyIdMemstore, Storage};
  use identity_verification::{MethodRelationship, MethodScope};
  let rt = tokio::runtime::Builder::new_current_thread().build().unwrap();
  let mut r = Rng::new(n ^ 0xD0C);
  let storage = Storage::new(JwkMemStore::new(), KeyIdMemstore::new());
  // every second stream goes through IotaDocument (its signing / verification calls are meant to be the same operations)
  let iota = n % 2 == 1;
  let mk = |id: &str, tag: &str| -> SD {
    if iota {
      SD::Iota(identity_iota_core::IotaDocument::new_with_id(identity_iota_core::IotaDID::parse(format!("did:iota:0x{}", tag.repeat(32))).unwrap()))
    } else {
      SD::Core(CoreDocument::builder(Object::new()).id(CoreDID::parse(id).unwrap()).build().unwrap())
    }
  };
  let mut doc = mk("did:example:holder", "ab");
  let mut other = mk("did:example:other", "cd");
  let scopes = [
    ("a", MethodScope::VerificationMethod),
    ("b", MethodScope::VerificationRelationship(MethodRelationship::Authentication)),
    ("c", MethodScope::VerificationRelationship(MethodRelationship::AssertionMethod)),
    ("d", MethodScope::VerificationRelationship(MethodRelationship::KeyAgreement)),
    ("e", MethodScope::VerificationRelationship(MethodRelationship::CapabilityDelegation)),
    ("f", MethodScope::VerificationRelationship(MethodRelationship::CapabilityInvocation)),
  ];
  for (f, sc) in scopes {
    doc.generate(&rt, &storage, f, sc)?;
  }
  other.generate(&rt, &storage, "a", MethodScope::VerificationMethod)?;
  let verifier = EdDSAJwsVerifier::default();
  // option bits from n
  let mut opts = JwsSignatureOptions::new();
  let bits = r.next();
  let bit = |i: u32| bits >> i & 1 == 1;
  if bit(0) { opts = opts.attach_jwk_to_header(true); }
  let b64 = if bit(1) { if bit(2) { opts = opts.b64(false); Some(false) } else { opts = opts.b64(true); Some(true) } } else { None };
  // option VALUES are drawn from pools that include characters outside the URL-safe alphabet, padding, spaces,
  // non-ASCII text and the empty string: whatever was requested must come back verbatim
  let texts = ["vc+jwt", "JWT", "application/example;part=\"1/2\"", "two words", "ünï-é€", "", "q83vEjRWeJA=", "challenge:42", "a.b/c+d_e-f", "n-1"];
  let pick = |k: u32| texts[(bits >> k) as usize % texts.len()];
  let typ_v = pick(24);
  let cty_v = pick(28);
  let nonce_v = pick(32);
  let kid_v = ["my-kid", "did:example:holder#zz", "kid with space", "k/ü?=", "#a", ""][(bits >> 36) as usize % 6];
  let url_v = ["https://example.com/x", "https://example.com/a%20b?q=1&r=%C3%A9#frag", "did:example:1234"][(bits >> 40) as usize % 3];
  let custom_v = [serde_json::json!({"a": [1, "two"]}), serde_json::json!("q83vEjRWeJA="), serde_json::json!(null), serde_json::json!(["é", {"k": -1}])][(bits >> 42) as usize % 4].clone();
  let custom_k = ["x-custom", "X.custom/π", "exp"][(bits >> 44) as usize % 3];
  if bit(3) { opts = opts.typ(typ_v); }
  if bit(4) { opts = opts.cty(cty_v); }
  if bit(5) { opts = opts.url(Url::parse(url_v).unwrap()); }
  let nonce = if bit(6) { opts = opts.nonce(nonce_v); Some(nonce_v) } else { None };
  let custom_kid = bit(7);
  if custom_kid { opts = opts.kid(kid_v); }
  let detached = bit(8);
  if detached { opts = opts.detached_payload(true); }
  if bit(9) {
    let mut o = Object::new();
    o.insert(custom_k.into(), custom_v.clone());
    opts = opts.custom_header_parameters(o);
  }
  let (frag, scope) = scopes[(bits >> 10) as usize % 6];
  // payload classes
  let payload: Vec<u8> = match (bits >> 12) % 5 {
    0 => b"payload".to_vec(),
    1 => b"{\"a\":\"b\"}".to_vec(),
    2 => b"with.dot".to_vec(),
    3 => r.bytes(1 + (bits >> 20) as usize % 40),
    _ => "é€ text ~".as_bytes().to_vec(),
  };
  let unencoded = b64 == Some(false);
  let jws = match doc.create(&rt, &storage, frag, &payload, &opts) {
    Ok(j) => j,
    Err(_) => {
      // the only legitimate refusals: an unencoded attached payload outside the compact charset
      let charset_ok = std::str::from_utf8(&payload).map(|s| !s.contains('.') && s.chars().all(|c| matches!(c, '\x20'..='\x2D' | '\x2F'..='\x7E'))).unwrap_or(false);
      if unencoded && !detached && !charset_ok {
        return None;
      }
      return Some(format!("create-jws-refused:opts {:?} payload {}", opts, hex(&payload)));
    }
  };
  let det_bytes: Option<Vec<u8>> = if detached { Some(if unencoded { payload.clone() } else { b64url(&payload).into_bytes() }) } else { None };
  let method_id = doc.core().id().to_url().join(format!("#{}", frag)).unwrap();
  let base = || {
    let mut v = JwsVerificationOptions::new();
    if let Some(nc) = nonce {
      v = v.nonce(nc);
    }
    if custom_kid {
      v = v.method_id(method_id.clone());
    }
    v
  };
  let check = |d: &SD, v: &JwsVerificationOptions| d.verify(&jws, det_bytes.as_deref(), &verifier, v);
  // 1. verifies against the document and key it was produced for, to what was signed
  match check(&doc, &base()) {
    Ok(dec) => {
      if dec.claims.as_ref() != payload.as_slice() {
        return Some("doc-verify-claims-differ:".into());
      }
      let want_kid: String = if custom_kid { kid_v.to_string() } else { method_id.to_string() };
      if dec.protected.nonce() != nonce || dec.protected.kid() != Some(want_kid.as_str()) {
        return Some("doc-verify-header-differs:".into());
      }
      // every requested option is in the protected header, as requested
      let h = &dec.protected;
      if h.typ() != Some(if bit(3) { typ_v } else { "JWT" }) {
        return Some(format!("doc-verify-header-differs:typ {:?}", h.typ()));
      }
      if h.cty() != (if bit(4) { Some(cty_v) } else { None }) {
        return Some(format!("doc-verify-header-differs:cty {:?}", h.cty()));
      }
      if h.url().map(|u| u.as_str()) != (if bit(5) { Some(Url::parse(url_v).unwrap().as_str().to_string()) } else { None }).as_deref() {
        return Some(format!("doc-verify-header-differs:url {:?}", h.url()));
      }
      if bit(9) && h.custom().and_then(|c| c.get(custom_k)) != Some(&custom_v) {
        return Some("doc-verify-header-differs:custom header parameter".into());
      }
      if !bit(9) && h.custom().map(|c| !c.is_empty()).unwrap_or(false) {
        return Some("doc-verify-header-differs:custom header parameter although not requested".into());
      }
      if h.alg() != Some(JwsAlgorithm::EdDSA) {
        return Some(format!("doc-verify-header-differs:alg {:?}", h.alg()));
      }
      match (b64, h.b64()) {
        (Some(false), Some(false)) => {
          if !h.crit().map(|c| c.iter().any(|x| x == "b64")).unwrap_or(false) {
            return Some("doc-verify-header-differs:b64=false without crit".into());
          }
        }
        (Some(false), other) => return Some(format!("doc-verify-header-differs:b64 {:?}", other)),
        (_, Some(false)) => return Some("doc-verify-header-differs:b64=false although not requested".into()),
        _ => {}
      }
      let own_key = doc.core().resolve_method(&method_id, None).and_then(|m| m.data().public_key_jwk()).map(|j| j.thumbprint_sha256_b64());
      match (bit(0), h.jwk()) {
        (true, Some(j)) => {
          if !j.is_public() || Some(j.thumbprint_sha256_b64()) != own_key {
            return Some("doc-verify-header-differs:the attached jwk is not the method's public key".into());
          }
        }
        (true, None) => return Some("doc-verify-header-differs:jwk not attached".into()),
        (false, Some(_)) => return Some("doc-verify-header-differs:jwk attached although not requested".into()),
        _ => {}
      }
      let segs: Vec<&str> = jws.as_str().split('.').collect();
      if segs.len() != 3 || (detached != segs[1].is_empty()) {
        return Some(format!("doc-verify-header-differs:detached {} but payload segment {:?}", detached, segs.get(1).map(|s| s.len())));
      }
    }
    Err(e) => return Some(format!("own-token-does-not-verify:{:?} opts {:?}", e, opts)),
  }
  // 2. the method's own scope accepts, a scope that excludes it rejects
  if check(&doc, &base().method_scope(scope)).is_err() {
    return Some("own-scope-rejected:".into());
  }
  for (_, ex) in scopes {
    if ex != scope && check(&doc, &base().method_scope(ex)).is_ok() {
      return Some(format!("excluding-scope-accepted:{:?} for a method in {:?}", ex, scope));
    }
  }
  // the same with the method named explicitly (method_id option) instead of through the kid
  for (_, ex) in scopes {
    let r = check(&doc, &base().method_id(method_id.clone()).method_scope(ex));
    if (ex == scope) != r.is_ok() {
      return Some(format!("{}:{:?} for a method in {:?} (method_id given)", if ex == scope { "own-scope-rejected" } else { "excluding-scope-accepted" }, ex, scope));
    }
  }
  // 3. a different nonce (or a nonce on only one side) rejects
  let wrong = match nonce {
    Some(nv) => vec![
      JwsVerificationOptions::new().nonce(format!("{}2", nv)),
      JwsVerificationOptions::new().nonce(b64url(nv.as_bytes())),
      JwsVerificationOptions::new().nonce(nv.to_uppercase() + "x"),
      JwsVerificationOptions::new(),
    ],
    None => vec![JwsVerificationOptions::new().nonce("n-1"), JwsVerificationOptions::new().nonce("")],
  };
  for mut w in wrong {
    if w.nonce.as_deref() == nonce {
      continue;
    }
    if custom_kid {
      w = w.method_id(method_id.clone());
    }
    if check(&doc, &w).is_ok() {
      return Some(format!("wrong-nonce-accepted:signed with nonce {:?}, verified with {:?}", nonce, w.nonce));
    }
  }
  // 4. another method's key rejects
  let other_frag = scopes[((bits >> 10) as usize + 1 + (bits >> 46) as usize % 5) % 6].0;
  let other_id = doc.core().id().to_url().join(format!("#{}", other_frag)).unwrap();
  let mut v = JwsVerificationOptions::new().method_id(other_id);
  if let Some(nc) = nonce {
    v = v.nonce(nc);
  }
  if check(&doc, &v).is_ok() {
    return Some("other-method-key-accepted:".into());
  }
  // 5. another document rejects (same fragment, different DID and key)
  if check(&other, &base()).is_ok() {
    return Some("other-document-accepted:".into());
  }
  None
}

const SIGN_TEXTS: [&str; 8] = ["vc+jwt", "application/example;part=\"1/2\"", "two words", "ünï-é€", "", "q83vEjRWeJA=", "challenge:42", "a.b/c+d_e-f"];
const SIGN_URLS: [&str; 3] = ["https://example.com/x", "https://example.com/a%20b?q=1&r=%C3%A9#frag", "did:example:1234"];

/// `C08 sign <opts> <payload>`: create_jws (or, `j:1`, create_credential_jwt) with explicit options; the reply names
/// what the token's decoded protected header carries, text values by their index in the pools (the model's names)
fn sign_req(opts: &str, pl: &str) -> Option<String> {
  use identity_core::common::{Object, Url};
  use identity_did::{CoreDID, DID};
  use identity_document::document::CoreDocument;
  use identity_storage::{JwkDocumentExt, JwkMemStore, JwsSignatureOptions, KeyIdMemstore, Storage};
  use identity_verification::MethodScope;
  let payload = unhex(pl)?;
  let m: std::collections::HashMap<&str, &str> = opts.split(';').filter_map(|kv| kv.split_once(':')).collect();
  let idx = |k: &str| -> Option<Option<usize>> {
    match *m.get(k)? {
      "~" => Some(None),
      v => v.parse().ok().map(Some),
    }
  };
  let flag = |k: &str| -> Option<bool> {
    match *m.get(k)? {
      "1" => Some(true),
      "0" => Some(false),
      _ => None,
    }
  };
  let rt = tokio::runtime::Builder::new_current_thread().build().unwrap();
  let storage = Storage::new(JwkMemStore::new(), KeyIdMemstore::new());
  let iota = payload.len() % 2 == 1;
  let mut doc = if iota {
    SD::Iota(identity_iota_core::IotaDocument::new_with_id(identity_iota_core::IotaDID::parse(format!("did:iota:0x{}", "ab".repeat(32))).unwrap()))
  } else {
    SD::Core(CoreDocument::builder(Object::new()).id(CoreDID::parse("did:example:holder").unwrap()).build().unwrap())
  };
  doc.generate(&rt, &storage, "a", MethodScope::VerificationMethod)?;
  let method_id = doc.core().id().to_url().join("#a").unwrap();
  let mut o = JwsSignatureOptions::new();
  if flag("a")? {
    o = o.attach_jwk_to_header(true);
  }
  match *m.get("b")? {
    "~" => {}
    "t" => o = o.b64(true),
    "f" => o = o.b64(false),
    _ => return None,
  }
  if let Some(i) = idx("t")? {
    o = o.typ(*SIGN_TEXTS.get(i)?);
  }
  if let Some(i) = idx("c")? {
    o = o.cty(*SIGN_TEXTS.get(i)?);
  }
  if let Some(i) = idx("u")? {
    o = o.url(Url::parse(*SIGN_URLS.get(i)?).ok()?);
  }
  if let Some(i) = idx("n")? {
    o = o.nonce(*SIGN_TEXTS.get(i)?);
  }
  if let Some(i) = idx("k")? {
    o = o.kid(*SIGN_TEXTS.get(i)?);
  }
  if flag("d")? {
    o = o.detached_payload(true);
  }
  if flag("x")? {
    let mut c = Object::new();
    c.insert("x-custom".into(), serde_json::json!({"a": [1, "two"]}));
    o = o.custom_header_parameters(c);
  }
  let jwt = flag("j")?;
  let token: String = if jwt {
    // the JWT wrapper: a credential whose claims are not looked at here (the payload argument only selects the document kind)
    use identity_credential::credential::{CredentialBuilder, Subject};
    let cred: identity_credential::credential::Credential = CredentialBuilder::default()
      .issuer(Url::parse(doc.core().id().as_str()).ok()?)
      .subject(Subject::with_id(Url::parse("did:example:subject").ok()?))
      .build()
      .ok()?;
    let r = match &doc {
      SD::Core(d) => rt.block_on(d.create_credential_jwt(&cred, &storage, "a", &o, None)),
      SD::Iota(d) => rt.block_on(d.create_credential_jwt(&cred, &storage, "a", &o, None)),
    };
    match r {
      Ok(j) => j.as_str().to_string(),
      Err(_) => return Some("err".into()),
    }
  } else {
    match doc.create(&rt, &storage, "a", &payload, &o) {
      Ok(j) => j.as_str().to_string(),
      Err(_) => return Some("err".into()),
    }
  };
  // read the protected header back from the token's first segment (JSON), independently of the library's header type
  let seg0 = token.split('.').next()?;
  let hj: serde_json::Value = serde_json::from_slice(&crate::c01::b64_strict(seg0.as_bytes())?).ok()?;
  let ho = hj.as_object()?;
  let name = |v: Option<&serde_json::Value>, pre: &str, pool: &[&str]| -> String {
    match v {
      None => "~".into(),
      Some(serde_json::Value::String(s)) => match pool.iter().position(|p| p == s) {
        Some(i) => format!("{}{}", pre, i),
        None => format!("?{}", s),
      },
      Some(other) => format!("?{}", other),
    }
  };
  let kid = match ho.get("kid").and_then(|v| v.as_str()) {
    Some(k) if k == method_id.to_string() => "M".to_string(),
    other => name(other.map(|s| serde_json::Value::String(s.to_string())).as_ref(), "k", &SIGN_TEXTS),
  };
  let typ = match ho.get("typ").and_then(|v| v.as_str()) {
    Some("JWT") => "JWT".to_string(),
    _ => name(ho.get("typ"), "t", &SIGN_TEXTS),
  };
  let urls: Vec<String> = SIGN_URLS.iter().map(|u| Url::parse(*u).map(|x| x.as_str().to_string()).unwrap_or_default()).collect();
  let urls_ref: Vec<&str> = urls.iter().map(|s| s.as_str()).collect();
  let own = doc.core().resolve_method(&method_id, None).and_then(|mm| mm.data().public_key_jwk()).map(|j| j.thumbprint_sha256_b64());
  let jwk = match ho.get("jwk") {
    None => "0".to_string(),
    Some(j) => match serde_json::from_value::<identity_jose::jwk::Jwk>(j.clone()) {
      Ok(j) if j.is_public() && Some(j.thumbprint_sha256_b64()) == own => "1".to_string(),
      _ => "?".to_string(),
    },
  };
  let b64 = match ho.get("b64") {
    None => "~".to_string(),
    Some(serde_json::Value::Bool(true)) => "t".into(),
    Some(serde_json::Value::Bool(false)) => "f".into(),
    Some(x) => format!("?{}", x),
  };
  let crit = match ho.get("crit") {
    None => "~".to_string(),
    Some(serde_json::Value::Array(a)) => a.iter().map(|x| x.as_str().unwrap_or("?").to_string()).collect::<Vec<_>>().join(","),
    Some(x) => format!("?{}", x),
  };
  let declared = ["alg", "kid", "typ", "cty", "url", "nonce", "jwk", "b64", "crit"];
  let mut cust: Vec<String> = ho.keys().filter(|k| !declared.contains(&k.as_str())).cloned().collect();
  cust.sort();
  let det = token.split('.').nth(1).map(|p| p.is_empty()).unwrap_or(false);
  Some(format!(
    "ok:alg={};kid={};typ={};cty={};url={};nonce={};jwk={};b64={};crit={};cust={};det={}",
    ho.get("alg").and_then(|v| v.as_str()).unwrap_or("~"),
    kid,
    typ,
    name(ho.get("cty"), "c", &SIGN_TEXTS),
    name(ho.get("url"), "u", &urls_ref),
    name(ho.get("nonce"), "n", &SIGN_TEXTS),
    jwk,
    b64,
    crit,
    if cust.is_empty() { "~".to_string() } else { cust.join(",") },
    det as u8
  ))
}

/// the document the storage-backed signing stream runs against
enum SD {
  Core(identity_document::document::CoreDocument),
  Iota(identity_iota_core::IotaDocument),
}
impl SD {
  fn core(&self) -> &identity_document::document::CoreDocument {
    match self {
      SD::Core(d) => d,
      SD::Iota(d) => d.core_document(),
    }
  }
  fn generate(&mut self, rt: &tokio::runtime::Runtime, st: &identity_storage::Storage<identity_storage::JwkMemStore, identity_storage::KeyIdMemstore>, f: &str, sc: identity_verification::MethodScope) -> Option<()> {
    use identity_storage::JwkDocumentExt;
    let (kt, alg) = (identity_storage::JwkMemStore::ED25519_KEY_TYPE, identity_jose::jws::JwsAlgorithm::EdDSA);
    match self {
      SD::Core(d) => rt.block_on(d.generate_method(st, kt, alg, Some(f), sc)).ok().map(|_| ()),
      SD::Iota(d) => rt.block_on(d.generate_method(st, kt, alg, Some(f), sc)).ok().map(|_| ()),
    }
  }
  fn create(&self, rt: &tokio::runtime::Runtime, st: &identity_storage::Storage<identity_storage::JwkMemStore, identity_storage::KeyIdMemstore>, f: &str, payload: &[u8], o: &identity_storage::JwsSignatureOptions) -> Result<identity_credential::credential::Jws, ()> {
    use identity_storage::JwkDocumentExt;
    match self {
      SD::Core(d) => rt.block_on(d.create_jws(st, f, payload, o)).map_err(|_| ()),
      SD::Iota(d) => rt.block_on(d.create_jws(st, f, payload, o)).map_err(|_| ()),
    }
  }
  fn verify<'a>(&self, jws: &'a identity_credential::credential::Jws, det: Option<&'a [u8]>, v: &identity_eddsa_verifier::EdDSAJwsVerifier, o: &identity_document::verifiable::JwsVerificationOptions) -> Result<identity_verification::jws::DecodedJws<'a>, String> {
    match self {
      SD::Core(d) => d.verify_jws(jws.as_str(), det, v, o).map_err(|e| format!("{:?}", e)),
      SD::Iota(d) => d.verify_jws(jws, det, v, o).map_err(|e| format!("{:?}", e)),
    }
  }
}

fn stab(specs: &[&str]) -> String {
  let mut out = vec![];
  let mut seen: Vec<String> = vec![];
  for s in specs {
    if *s == "_" || seen.iter().any(|x| x == s) {
      continue;
    }
    seen.push(s.to_string());
    if let Some(Some(h)) = parse_hspec(s).map(|x| x.and_then(|x| build_header(&x))) {
      if let Ok(j) = serde_json::to_vec(&h) {
        out.push(format!("S={}={}", s, hex(&j)));
      }
    }
  }
  out.join(" ")
}

pub fn gen(thorough: bool, seed: u64, out: &mut impl Write) {
  let mut r = Rng::new(seed ^ 0xC08);
  let prots = [
    "H:EdDSA:-:-:-:-", "H:EdDSA:t:b64:-:-", "H:EdDSA:f:b64:-:-", "H:EdDSA:f:-:-:-", "H:EdDSA:-:b64:-:-", "H:ES256:-:-:kid,typ,nonce:x", "H:EdDSA:f:b64:kid,url:x,y",
    "H:-:-:-:kid:-", "H:EdDSA:-:=:-:-", "H:EdDSA:-:exp:-:exp",
    // a protected header without any parameter (`{}`, encoded `e30`): present, signed, and to be read back as present
    "H:-:-:-:-:-",
  ];
  let unprots = ["_", "H:-:-:-:typ:-", "H:-:-:-:kid:-", "H:-:-:-:-:z", "H:-:t:-:-:-", "H:EdDSA:-:-:-:-"];
  let mut payloads: Vec<Vec<u8>> = vec![
    b"payload".to_vec(), b"{\"a\":\"b\"}".to_vec(), b"a.b".to_vec(), b"".to_vec(), b"\x00\xff\xfe bin".to_vec(), b"back\\slash".to_vec(), b"ctl\x01\n\t".to_vec(),
    "é€😀".as_bytes().to_vec(), b"~tilde-_09AZ".to_vec(), b" ".to_vec(), b".".to_vec(),
  ];
  for _ in 0..(if thorough { 60 } else { 8 }) {
    let n = 1 + r.below(30) as usize;
    payloads.push(r.bytes(n));
    let n2 = 1 + r.below(20) as usize;
    payloads.push((0..n2).map(|_| b"abcXYZ019 {}\":,.\\/~-_"[r.below(21) as usize]).collect());
  }
  let sigs: [&[u8]; 3] = [b"sig", b"\x00\x01\x02\x03\xff", b""];
  for p in prots {
    for pl in &payloads {
      for o in ["nd-default", "nd-url", "det"] {
        for sg in sigs {
          if sg.is_empty() && o != "det" {
            continue;
          }
          writeln!(out, "C08 compact {} {} {} {} {}", hex(pl), p, o, hex(sg), stab(&[p])).unwrap();
        }
      }
      for u in unprots {
        for det in ["0", "1"] {
          let u8ok = std::str::from_utf8(pl).is_ok();
          writeln!(out, "C08 flat {} {} {} {} {} {} {}", hex(pl), p, u, det, if u8ok { "1" } else { "0" }, hex(b"sig"), stab(&[p, u])).unwrap();
        }
      }
    }
  }
  for pl in &payloads {
    for u in unprots {
      for det in ["0", "1"] {
        let u8ok = std::str::from_utf8(pl).is_ok();
        writeln!(out, "C08 flat {} _ {} {} {} {} {}", hex(pl), u, det, if u8ok { "1" } else { "0" }, hex(b"sig"), stab(&[u])).unwrap();
      }
    }
  }
  // general: 1..4 recipients
  let recs = [
    ("H:EdDSA:-:-:-:-", "_"), ("H:EdDSA:t:b64:-:-", "_"), ("H:EdDSA:f:b64:-:-", "_"), ("H:ES256:f:b64:kid:-", "H:-:-:-:typ:-"), ("H:EdDSA:-:-:kid:-", "H:-:-:-:kid:-"),
    ("_", "H:EdDSA:-:-:-:-"), ("_", "_"), ("H:ES256:-:-:nonce:-", "H:-:-:-:-:q"),
    ("H:-:-:-:-:-", "H:EdDSA:-:-:-:-"), ("H:-:-:-:-:-", "_"),
  ];
  let npl = if thorough { payloads.len() } else { 14 };
  for pl in payloads.iter().take(npl) {
    if std::str::from_utf8(pl).is_err() {
      // the general encoder's into_jws rejects non-UTF-8 only when not detached and b64=false
    }
    for a in recs {
      let u8f = if std::str::from_utf8(pl).is_ok() { "1" } else { "0" };
      writeln!(out, "C08 general {} 0 {} {} {} {} {}", hex(pl), u8f, a.0, a.1, hex(b"s0"), stab(&[a.0, a.1])).unwrap();
      for b in recs {
        for det in ["0", "1"] {
          writeln!(out, "C08 general {} {} {} {} {} {} {} {} {} {}", hex(pl), det, u8f, a.0, a.1, hex(b"s0"), b.0, b.1, hex(b"s1"), stab(&[a.0, a.1, b.0, b.1])).unwrap();
        }
        if thorough {
          for c in recs.iter().take(4) {
            writeln!(out, "C08 general {} 0 {} {} {} {} {} {} {} {} {} {} {}", hex(pl), u8f, a.0, a.1, hex(b"s0"), b.0, b.1, hex(b"s1"), c.0, c.1, hex(b"s2"), stab(&[a.0, a.1, b.0, b.1, c.0, c.1])).unwrap();
          }
        }
      }
    }
  }
  let _ = b64_strict;
  for k in 0..(if thorough { 4000 } else { 300 }) {
    writeln!(out, "C08 doc {}", seed * 100_000 + k).unwrap();
    // storage-backed signing with explicit options, compared with the model of create_jws (header assembly, refusals)
    let pick = |r: &mut Rng, n: u64| if r.chance(1, 2) { "~".to_string() } else { r.below(n).to_string() };
    let payload: Vec<u8> = match r.below(5) {
      0 => b"payload".to_vec(),
      1 => b"{\"a\":\"b\"}".to_vec(),
      2 => b"with.dot".to_vec(),
      3 => {
        let n = 1 + r.below(40) as usize;
        r.bytes(n)
      }
      _ => "é€ text ~".as_bytes().to_vec(),
    };
    writeln!(
      out,
      "C08 sign a:{};b:{};t:{};c:{};u:{};n:{};k:{};d:{};x:{};j:{} {}",
      r.below(2),
      r.pick(&["~", "t", "f", "f"]),
      pick(&mut r, 8),
      pick(&mut r, 8),
      pick(&mut r, 3),
      pick(&mut r, 8),
      pick(&mut r, 8),
      r.below(2),
      r.below(2),
      if r.chance(1, 5) { 1 } else { 0 },
      hex(&payload)
    )
    .unwrap();
  }
}
