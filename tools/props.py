"""Per-property configuration of ./check (what is compared, what is trusted, how cases are counted)."""

TRUSTED_BASE = [
    "Lean 4.33.0 kernel + elaborator; axioms allowed: propext, Classical.choice, Quot.sound (audited with #print axioms on every property theorem, every run); no native_decide / bv_decide / sorry / user axioms",
    "correspondence check: Rust harness (hx) canonicalisation + Lean driver request parsing + generator quality; validates the hand-written model only on the inputs it runs",
    "tools/translate.py for the regenerated fragments (IdModel/Gen/*.lean)",
    "rustc / std / serde / serde_json (not modelled)",
]


def reply_class(pid, req, obs):
    """coarse class of a request/reply for the coverage histogram"""
    t = req.split(" ")
    sub = t[1] if len(t) > 1 else ""
    if obs in ("err", "bad-request", "PANIC"):
        return sub + ":" + obs
    head = obs.split(" ")[0]
    import re
    head = re.sub(r"[0-9a-f]{6,}", "#", head)
    head = re.sub(r"[0-9]+", "n", head)
    return sub + ":" + head[:24]


PROPS = {
    "C19": {
        "translate": False,
        "diff_is_violation": True,
        "rule": "streams: (1) corpus; (2) exhaustive operation sequences (append/prepend/update/replace/remove) of bounded length over 3 keys x 2 values from every duplicate-free start of size <= 2, and deeper over 2 keys; (3) random histories of length <= 50 over 2..6 keys; (4) every list of length <= 4 over 6 elements through from_iter / try_from / OneOrSet / OneOrMany (+ append, map, push); (5) every JSON array of length <= 4 over {string a,b,c, number, nested array, empty array} and bare values, for OrderedSet/OneOrSet/OneOrMany<String>. A request is non-trivial when the implementation's reply is not `err`/`bad-request`; distinct = distinct request lines.",
        "trusted_base": ["serde attribute glue (untagged, try_from, deserialize_with) is tied by correspondence only (JSON stream), not proved"],
        "assumptions": ["element type deserialises exactly from a JSON string (harness uses String) for the JSON theorems"],
    },
}
