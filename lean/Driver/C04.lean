import IdModel.Doc.QueryStr
import IdModel.Doc.Model
import Driver.Util
/-! Line-protocol handler for C04 (document histories). See harness/src/c04.rs for the request grammar. -/
namespace Driver.C04
open IdModel.Doc

def parseFrag (t : String) : Option (Option Nat) :=
  if t == "~" then some none else t.toNat?.map some

def parseId (t : String) : Option Id :=
  match t.splitOn "." with
  | [d, p, f] => do pure ⟨← d.toNat?, ← p.toNat?, ← parseFrag f⟩
  | _ => none

def parseMethod (t : String) : Option Method :=
  match t.splitOn "." with
  | [d, p, f, b] => do pure ⟨⟨← d.toNat?, ← p.toNat?, ← parseFrag f⟩, ← b.toNat?⟩
  | _ => none

def parseService (t : String) : Option Service :=
  match t.splitOn "." with
  | [d, p, f, b] => do pure ⟨⟨← d.toNat?, ← p.toNat?, ← parseFrag f⟩, ← b.toNat?⟩
  | _ => none

def parseRef (t : String) : Option MRef :=
  if t.startsWith "E" then (parseMethod (t.drop 1).toString).map .embed
  else if t.startsWith "R" then (parseId (t.drop 1).toString).map .refer
  else none

def parseList {α : Type} (f : String → Option α) (t : String) : Option (List α) :=
  if t == "" then some [] else (t.splitOn ",").mapM f

def field (name : String) (parts : List String) : Option String :=
  (parts.find? (fun p => p.startsWith (name ++ "="))).map (fun p => (p.drop (name.length + 1)).toString)

def parseData (t : String) : Option Data :=
  let parts := t.splitOn ";"
  match parts with
  | idp :: rest => do
    let i ← (idp.drop 1).toString.toNat?
    let vm ← parseList parseMethod (← field "vm" rest)
    let a0 ← parseList parseRef (← field "a0" rest)
    let a1 ← parseList parseRef (← field "a1" rest)
    let a2 ← parseList parseRef (← field "a2" rest)
    let a3 ← parseList parseRef (← field "a3" rest)
    let a4 ← parseList parseRef (← field "a4" rest)
    let sv ← parseList parseService (← field "sv" rest)
    pure ⟨i, vm, a0, a1, a2, a3, a4, sv⟩
  | [] => none

def showFrag : Option Nat → String
  | none => "~"
  | some f => toString f

def showId (i : Id) : String := s!"{i.did}.{i.pq}.{showFrag i.frag}"
def showMethod (m : Method) : String := s!"{showId m.id}.{m.body}"
def showService (s : Service) : String := s!"{showId s.id}.{s.body}"
def showRef : MRef → String
  | .embed m => "E" ++ showMethod m
  | .refer i => "R" ++ showId i

def showDoc (d : Doc) : String :=
  s!"D{d.id};vm={",".intercalate (d.vm.map showMethod)};a0={",".intercalate (d.auth.map showRef)};a1={",".intercalate (d.asrt.map showRef)};a2={",".intercalate (d.keyAgr.map showRef)};a3={",".intercalate (d.capDel.map showRef)};a4={",".intercalate (d.capInv.map showRef)};sv={",".intercalate (d.service.map showService)}"

def parseRel (t : String) : Option Rel := t.toNat?.bind Rel.ofNat?

def parseScope (t : String) : Option Scope :=
  if t == "vm" then some .vm else (parseRel t).map .rel

def showScope : Scope → String
  | .vm => "vm"
  | .rel .auth => "0" | .rel .asrt => "1" | .rel .keyAgr => "2" | .rel .capDel => "3" | .rel .capInv => "4"

/-- query forms: `F` a `DIDUrl` value, `S` its string, `H` `#fragment`, `B` the bare fragment -/
def mkQuery (form : String) (i : Id) : Option Query :=
  if form == "F" || form == "S" then some (Query.ofId i)
  else if form == "H" || form == "B" then some ⟨none, i.frag⟩
  else none

def showRes : Res → String
  | .ok => "ok"
  | .okFlag true => "ok1"
  | .okFlag false => "ok0"
  | .removedMethod none => "none"
  | .removedMethod (some (m, s)) => showMethod m ++ "@" ++ showScope s
  | .removedService none => "none"
  | .removedService (some s) => showService s
  | .errMethodInsertion => "errI"
  | .errServiceInsertion => "errS"
  | .errEmbedded => "errE"
  | .errNotFound => "errN"

def parseOp (t : String) : Option Op :=
  match t.splitOn ":" with
  | ["im", s, m] => do pure (.insertMethod (← parseMethod m) (← parseScope s))
  | ["rm", i] => do pure (.removeMethod (← parseId i))
  | ["is", s] => do pure (.insertService (← parseService s))
  | ["rs", i] => do pure (.removeService (← parseId i))
  | ["at", f, i, r] => do pure (.attach (← mkQuery f (← parseId i)) (← parseRel r))
  | ["dt", f, i, r] => do pure (.detach (← mkQuery f (← parseId i)) (← parseRel r))
  | _ => none

def scopes : List (Option Scope) :=
  [none, some .vm, some (.rel .auth), some (.rel .asrt), some (.rel .keyAgr), some (.rel .capDel), some (.rel .capInv)]

def idUniverse (nd np nf : Nat) : List Id :=
  (List.range nd ++ [50, 10]).flatMap fun d => (List.range np).flatMap fun p => (List.range nf).map fun f => ⟨d, p, some (f + 1)⟩

def showOM : Option Method → String
  | none => ""
  | some m => showMethod m

def battery (d : Doc) (nd np nf : Nat) : String :=
  let ids := idUniverse nd np nf
  let qs : List Query := ids.flatMap fun i => [Query.ofId i, ⟨none, i.frag⟩]
  let meth := qs.flatMap fun q => scopes.map fun s => showOM (resolveMethod d q s)
  let svc := qs.map fun q => match resolveService d q with
    | none => ""
    | some s => showService s
  let ms := scopes.map fun s => "+".intercalate ((methods d s).map showMethod)
  "Q=" ++ ",".intercalate meth ++ ";" ++ ",".intercalate svc ++ ";" ++ ",".intercalate ms

def runOps (d : Doc) : List String → List String
  | [] => []
  | t :: ts =>
    if t == "S" then showDoc d :: runOps d ts
    else if t.startsWith "Q:" then
      match (t.drop 2).toString.splitOn ":" with
      | [a, b, c] =>
        match a.toNat?, b.toNat?, c.toNat? with
        | some nd, some np, some nf => battery d nd np nf :: runOps d ts
        | _, _, _ => ["bad-op"]
      | _ => ["bad-op"]
    else if t.startsWith "rM:" then
      -- `remove_method`: the same removal as `remove_method_and_scope`, the scope is not reported
      match C04.parseId (t.drop 3).toString with
      | some k =>
        let r := removeMethod d k
        (match r.2 with
         | .removedMethod (some (m, _)) => showMethod m
         | _ => "none") :: runOps r.1 ts
      | none => ["bad-op"]
    else match parseOp t with
      | some op => let r := step d op; showRes r.2 :: runOps r.1 ts
      | none => ["bad-op"]

def handle (args : List String) : String :=
  match args with
  | ["qstr", q, d, f] =>
    -- `DIDUrlQuery::matches` at string level: query string, DID string and fragment of the identifier asked about
    match Driver.unhex q, Driver.unhex d, Driver.unhex f with
    | some q, some d, some f => if IdModel.Doc.QueryStr.matchesStr q d (if f.isEmpty then none else some f) then "match" else "nomatch"
    | _, _, _ => "bad-request"
  | "hist" :: doc :: ops =>
    let ops := match ops with
      | "|" :: r => r
      | r => r
    -- the first character says how the start document is obtained (J: from JSON, B: through the builder); same gate
    match parseData (doc.drop 1).toString with
    | none => "bad-request"
    | some x =>
      match fromData x with
      | none => "start:reject"
      | some d => " ".intercalate ("start:ok" :: runOps d ops)
  | _ => "bad-request"

end Driver.C04
